//! Controlled thread schedules over the real crate.  Every participating thread parks at each
//! `calloop::verif::yield_point(label)`; the controller releases exactly the thread the schedule
//! names and waits until it parks again, finishes, or is blocked in the kernel.
use std::sync::{Arc, Condvar, Mutex, OnceLock};
use std::time::Duration;

#[derive(Clone, Copy, Debug, PartialEq)]
pub enum Status {
    NotStarted,
    Parked(&'static str),
    Running,
    Done,
    /// the thread's program panicked (e.g. an `unwrap` on an error the tree under test now returns)
    Panicked,
}

struct Inner {
    status: Vec<Status>,
    turn: Option<usize>,
    os_tid: Vec<Option<i32>>,
    generation: u64,
    /// threads last reported `Blocked`: asking again only needs a short look
    was_blocked: Vec<bool>,
}

pub struct Sched {
    inner: Mutex<Inner>,
    cv: Condvar,
}

static SCHED: OnceLock<Arc<Sched>> = OnceLock::new();

thread_local! {
    static TID: std::cell::Cell<Option<usize>> = std::cell::Cell::new(None);
}

fn hook(label: &'static str) {
    if let Some(tid) = TID.with(|t| t.get()) {
        if let Some(s) = SCHED.get() {
            s.park(tid, label);
        }
    }
}

#[derive(Debug, PartialEq)]
pub enum StepResult {
    At(&'static str),
    Done,
    Blocked,
    Skip,
    Panicked,
}

impl Sched {
    /// The process-wide scheduler (the yield hook can only be installed once).
    pub fn global() -> Arc<Sched> {
        SCHED
            .get_or_init(|| {
                calloop::verif::install_yield_hook(hook);
                Arc::new(Sched {
                    inner: Mutex::new(Inner {
                        status: Vec::new(),
                        turn: None,
                        os_tid: Vec::new(),
                        generation: 0,
                        was_blocked: Vec::new(),
                    }),
                    cv: Condvar::new(),
                })
            })
            .clone()
    }

    /// Forget all threads of the previous case.
    pub fn reset(&self, nthreads: usize) {
        let mut g = self.inner.lock().unwrap();
        g.status = vec![Status::NotStarted; nthreads];
        g.os_tid = vec![None; nthreads];
        g.was_blocked = vec![false; nthreads];
        g.turn = None;
        g.generation += 1;
    }

    fn park(&self, tid: usize, label: &'static str) {
        let mut g = self.inner.lock().unwrap();
        g.status[tid] = Status::Parked(label);
        self.cv.notify_all();
        while g.turn != Some(tid) {
            g = self.cv.wait(g).unwrap();
        }
        g.turn = None;
        g.status[tid] = Status::Running;
    }

    /// Run `f` as controlled thread `tid`: it parks at "start" first.
    pub fn spawn<F: FnOnce() + Send + 'static>(self: &Arc<Self>, tid: usize, f: F) -> std::thread::JoinHandle<()> {
        let me = self.clone();
        std::thread::spawn(move || {
            TID.with(|t| t.set(Some(tid)));
            let os = std::fs::read_link("/proc/thread-self")
                .ok()
                .and_then(|p| p.file_name().and_then(|n| n.to_str().and_then(|s| s.parse::<i32>().ok())));
            me.inner.lock().unwrap().os_tid[tid] = os;
            me.park(tid, "start");
            let r = std::panic::catch_unwind(std::panic::AssertUnwindSafe(f));
            let mut g = me.inner.lock().unwrap_or_else(|e| e.into_inner());
            g.status[tid] = if r.is_ok() { Status::Done } else { Status::Panicked };
            TID.with(|t| t.set(None));
            me.cv.notify_all();
        })
    }

    /// Run a closure on the *current* thread as controlled thread `tid` is not supported: the loop
    /// thread is a spawned thread like the others (EventLoop is created inside it).

    pub fn wait_parked(&self, tid: usize) {
        let mut g = self.inner.lock().unwrap();
        while !matches!(g.status[tid], Status::Parked(_) | Status::Done | Status::Panicked) {
            g = self.cv.wait(g).unwrap();
        }
    }

    fn kernel_blocked(os_tid: Option<i32>) -> bool {
        let Some(t) = os_tid else { return false };
        let stat = std::fs::read_to_string(format!("/proc/self/task/{}/stat", t)).unwrap_or_default();
        // state is the field after the parenthesised command name
        let st = stat.rsplit(") ").next().and_then(|r| r.chars().next()).unwrap_or('R');
        if st != 'S' {
            return false;
        }
        let wchan = std::fs::read_to_string(format!("/proc/self/task/{}/wchan", t)).unwrap_or_default();
        wchan.contains("futex") || wchan.contains("ep_poll") || wchan.contains("epoll") || wchan == "0" || wchan.is_empty()
    }

    /// Release thread `tid` until its next yield point, its end, or until it blocks in the kernel.
    pub fn step(&self, tid: usize) -> StepResult {
        let mut g = self.inner.lock().unwrap();
        match g.status[tid] {
            Status::Done | Status::NotStarted => return StepResult::Skip,
            Status::Panicked => return StepResult::Skip,
            Status::Running => {
                // it was reported blocked earlier: see whether it has moved on
            }
            Status::Parked(_) => {
                g.turn = Some(tid);
                self.cv.notify_all();
            }
        }
        let mut sleepy = 0;
        // a thread that was blocked the last time we looked and has not been released since: a short look suffices
        let need = if g.was_blocked[tid] && matches!(g.status[tid], Status::Running) { 3 } else { 25 };
        g.was_blocked[tid] = false;
        loop {
            let (ng, _) = self.cv.wait_timeout(g, Duration::from_millis(1)).unwrap();
            g = ng;
            if g.turn == Some(tid) {
                continue; // not yet woken
            }
            match g.status[tid] {
                Status::Parked(l) => return StepResult::At(l),
                Status::Done => return StepResult::Done,
                Status::Panicked => return StepResult::Panicked,
                Status::Running => {
                    if Self::kernel_blocked(g.os_tid[tid]) {
                        sleepy += 1;
                        if sleepy >= need {
                            g.was_blocked[tid] = true;
                            return StepResult::Blocked;
                        }
                    } else {
                        sleepy = 0;
                    }
                }
                Status::NotStarted => return StepResult::Skip,
            }
        }
    }

    /// For a thread that was reported `Blocked`: wait until it has parked at a yield point, finished, or
    /// is (still) blocked in the kernel — without releasing it.
    pub fn settle(&self, tid: usize) -> StepResult {
        let mut g = self.inner.lock().unwrap();
        let mut sleepy = 0;
        loop {
            match g.status[tid] {
                Status::Parked(l) => return StepResult::At(l),
                Status::Done => return StepResult::Done,
                Status::Panicked => return StepResult::Panicked,
                Status::NotStarted => return StepResult::Skip,
                Status::Running => {
                    if Self::kernel_blocked(g.os_tid[tid]) {
                        sleepy += 1;
                        if sleepy >= 25 {
                            return StepResult::Blocked;
                        }
                    } else {
                        sleepy = 0;
                    }
                }
            }
            let (ng, _) = self.cv.wait_timeout(g, Duration::from_millis(1)).unwrap();
            g = ng;
        }
    }

    pub fn status(&self, tid: usize) -> Status {
        self.inner.lock().unwrap().status[tid]
    }
}

/// counter of an eventfd, read without consuming it
pub fn eventfd_count(fd: i32) -> u64 {
    let s = std::fs::read_to_string(format!("/proc/self/fdinfo/{}", fd)).unwrap_or_default();
    for l in s.lines() {
        if let Some(v) = l.strip_prefix("eventfd-count:") {
            return u64::from_str_radix(v.trim(), 16).unwrap_or(0);
        }
    }
    0
}

/// the fds registered in an epoll instance, except polling's own (data = u64::MAX)
pub fn epoll_user_fds(epfd: i32) -> Vec<i32> {
    let s = std::fs::read_to_string(format!("/proc/self/fdinfo/{}", epfd)).unwrap_or_default();
    let mut out = Vec::new();
    for l in s.lines() {
        if l.starts_with("tfd:") && !l.contains("data: ffffffffffffffff") {
            let f: Vec<&str> = l.split_whitespace().collect();
            if let Ok(fd) = f[1].parse() {
                out.push(fd);
            }
        }
    }
    out
}
