//! C17: the real `Async<F>` adapter over a socketpair, driven by the calloop executor, single-threaded.
//! The adapter side runs a task that reads (or writes) `total` bytes in chunks of `chunk`; the peer end is
//! operated directly by the harness.  Bytes follow the pattern byte(i) = i % 251, so both sides can check
//! content and order.
use calloop::futures::executor;
use calloop::EventLoop;
use futures_io::{AsyncRead, AsyncWrite};
use std::cell::RefCell;
use std::io::{BufRead, Read, Write};
use std::os::unix::io::{AsFd, AsRawFd};
use std::os::unix::net::UnixStream;
use std::pin::Pin;
use std::rc::Rc;
use std::time::Duration;

#[derive(Default)]
struct Progress {
    moved: usize,
    pattern_ok: bool,
    done: bool,
    polls: usize,
    io_error: bool,
}

/// a second handle on an fd somebody else owns (never closes it)
struct SameFd(i32);
impl AsFd for SameFd {
    fn as_fd(&self) -> std::os::unix::io::BorrowedFd<'_> {
        unsafe { std::os::unix::io::BorrowedFd::borrow_raw(self.0) }
    }
}

fn is_nonblock(fd: impl AsFd) -> bool {
    rustix::fs::fcntl_getfl(fd).map(|f| f.contains(rustix::fs::OFlags::NONBLOCK)).unwrap_or(false)
}

fn armed(epfd: i32, fd: i32) -> &'static str {
    let s = std::fs::read_to_string(format!("/proc/self/fdinfo/{}", epfd)).unwrap_or_default();
    for l in s.lines() {
        let f: Vec<&str> = l.split_whitespace().collect();
        if f.first() == Some(&"tfd:") && f[1].parse::<i32>().ok() == Some(fd) {
            let ev = u32::from_str_radix(f[3], 16).unwrap_or(0);
            return match (ev & 1 != 0, ev & 4 != 0) {
                (true, false) => "r",
                (false, true) => "w",
                (true, true) => "rw",
                (false, false) => "-",
            };
        }
    }
    "none"
}

fn settle(el: &mut EventLoop<'static, ()>, prog: &Rc<RefCell<Progress>>) {
    let mut idle = 0;
    for _ in 0..200 {
        let before = (prog.borrow().polls, prog.borrow().moved);
        el.dispatch(Some(Duration::ZERO), &mut ()).unwrap();
        if (prog.borrow().polls, prog.borrow().moved) == before {
            idle += 1;
            if idle >= 2 {
                break;
            }
        } else {
            idle = 0;
        }
    }
}

/// C15 / C17: adapting an fd the poller refuses (a regular file: EPERM) must fail and leave nothing behind
/// a file descriptor number that is not open any more (`fcntl` fails on it before the poller is asked)
struct ClosedFd(i32);
impl AsFd for ClosedFd {
    fn as_fd(&self) -> std::os::unix::io::BorrowedFd<'_> {
        unsafe { std::os::unix::io::BorrowedFd::borrow_raw(self.0) }
    }
}

/// C15: adapting an fd that is refused before the poller is even asked (closed: EBADF from fcntl) leaves nothing behind
fn run_adaptclosed(out: &mut impl Write) {
    let el: EventLoop<'static, ()> = EventLoop::try_new().unwrap();
    let h = el.handle();
    let raw = {
        let (a, _b) = UnixStream::pair().unwrap();
        a.as_raw_fd()
    }; // both ends closed here
    let before = h.verif_stats();
    let mut errs = 0;
    for _ in 0..3 {
        if h.adapt_io(ClosedFd(raw)).is_err() {
            errs += 1;
        }
    }
    let after = h.verif_stats();
    writeln!(
        out,
        "adaptclosed errs={} occupied={}->{} slots_grew={}",
        errs,
        before.occupied,
        after.occupied,
        (after.slots > before.slots + 1) as u8
    )
    .unwrap();
}

fn run_adaptfail(blocking: bool, out: &mut impl Write) {
    let el: EventLoop<'static, ()> = EventLoop::try_new().unwrap();
    let h = el.handle();
    let f = std::fs::File::open("/proc/self/status").unwrap();
    let probe = f.try_clone().unwrap();
    rustix::fs::fcntl_setfl(&f, if blocking { rustix::fs::OFlags::empty() } else { rustix::fs::OFlags::NONBLOCK }).unwrap();
    let before = h.verif_stats();
    let r = h.adapt_io(f);
    let after = h.verif_stats();
    let same = before.slots == after.slots && before.occupied == after.occupied && before.lifecycle_len == after.lifecycle_len;
    writeln!(
        out,
        "adaptfail err={} bookkeeping={} nonblock={}",
        r.is_err() as u8,
        if before.occupied == after.occupied && (same || after.slots >= before.slots) { "same" } else { "changed" },
        is_nonblock(&probe) as u8
    )
    .unwrap();
}

fn run_case(lines: &[String], out: &mut impl Write) {
    if lines.iter().any(|l| l.trim() == "mode adaptclosed") {
        run_adaptclosed(out);
        return;
    }
    if lines.iter().any(|l| l.trim() == "mode adaptfail") {
        let blocking = lines.iter().any(|l| l.trim() == "blocking 1");
        run_adaptfail(blocking, out);
        return;
    }
    let mut mode_read = true;
    let mut blocking = true;
    let (mut total, mut chunk) = (0usize, 1usize);
    let mut end_into_inner = false;
    let mut probe_first = false;
    let mut vectored = false;
    let mut ops: Vec<String> = Vec::new();
    for l in lines {
        let w: Vec<&str> = l.split_whitespace().collect();
        match w[0] {
            "mode" => mode_read = w[1] == "read",
            "blocking" => blocking = w[1] == "1",
            "total" => {
                total = w[1].parse().unwrap();
                chunk = w[3].parse().unwrap();
            }
            "finish" => end_into_inner = w[1] == "intoinner",
            // every wait is first polled under a throw-away waker (a `now_or_never`-style probe), then awaited
            "probe" => probe_first = w[1] == "1",
            // writes (and reads) go through the vectored entry points, the buffer split in two
            "vectored" => vectored = w[1] == "1",
            _ => ops.push(l.clone()),
        }
    }
    let (a, mut peer) = UnixStream::pair().unwrap();
    a.set_nonblocking(!blocking).unwrap();
    peer.set_nonblocking(true).unwrap();
    let raw = a.as_raw_fd();
    // a second descriptor of the same open file: O_NONBLOCK is a property of the open file, so the mode can
    // still be read after the adapter (and its descriptor) is gone; it also keeps a forgotten registration
    // visible in the poller's table
    let probe = a.try_clone().unwrap();
    let mut el: EventLoop<'static, ()> = EventLoop::try_new().unwrap();
    let epfd = el.as_raw_fd();
    let h = el.handle();
    let (exec, sched) = executor::<()>().unwrap();
    let exec_tok = h.insert_source(exec, |_, _, _| {}).map_err(|e| e.error).unwrap();
    let gave_back = Rc::new(std::cell::Cell::new(false));
    let prog = Rc::new(RefCell::new(Progress {
        pattern_ok: true,
        ..Default::default()
    }));
    let adapter = h.adapt_io(a).unwrap();
    let created_nonblock = is_nonblock(&probe);
    {
        let prog = prog.clone();
        let gave_back2 = gave_back.clone();
        sched
            .schedule(async move {
                let mut io = adapter;
                let mut buf = vec![0u8; chunk.max(1)];
                while prog.borrow().moved < total {
                    let pos = prog.borrow().moved;
                    let want = chunk.min(total - pos);
                    if mode_read {
                        let mut probe_now = probe_first;
                        let n = std::future::poll_fn(|cx| {
                            prog.borrow_mut().polls += 1;
                            if std::mem::take(&mut probe_now) {
                                let mut other = std::task::Context::from_waker(std::task::Waker::noop());
                                if let std::task::Poll::Ready(r) = Pin::new(&mut io).poll_read(&mut other, &mut buf[..want]) {
                                    return std::task::Poll::Ready(r);
                                }
                            }
                            Pin::new(&mut io).poll_read(cx, &mut buf[..want])
                        })
                        .await;
                        let n = match n {
                            Ok(n) => n,
                            Err(_) => {
                                // an operation on the adapter failed (e.g. its registration is gone): the transfer stops
                                prog.borrow_mut().io_error = true;
                                return;
                            }
                        };
                        if n == 0 {
                            break;
                        }
                        let mut p = prog.borrow_mut();
                        for (i, b) in buf[..n].iter().enumerate() {
                            if *b != ((pos + i) % 251) as u8 {
                                p.pattern_ok = false;
                            }
                        }
                        p.moved += n;
                    } else {
                        for (i, b) in buf[..want].iter_mut().enumerate() {
                            *b = ((pos + i) % 251) as u8;
                        }
                        let mut probe_now = probe_first;
                        let n = std::future::poll_fn(|cx| {
                            prog.borrow_mut().polls += 1;
                            if std::mem::take(&mut probe_now) {
                                let mut other = std::task::Context::from_waker(std::task::Waker::noop());
                                if let std::task::Poll::Ready(r) = Pin::new(&mut io).poll_write(&mut other, &buf[..want]) {
                                    return std::task::Poll::Ready(r);
                                }
                            }
                            if vectored && want >= 2 {
                                let (x, y) = buf[..want].split_at(want / 2);
                                Pin::new(&mut io).poll_write_vectored(cx, &[std::io::IoSlice::new(x), std::io::IoSlice::new(y)])
                            } else {
                                Pin::new(&mut io).poll_write(cx, &buf[..want])
                            }
                        })
                        .await;
                        let n = match n {
                            Ok(n) => n,
                            Err(_) => {
                                prog.borrow_mut().io_error = true;
                                return;
                            }
                        };
                        prog.borrow_mut().moved += n;
                    }
                }
                // the transfer is over: give the fd back (into_inner) or drop the adapter
                if end_into_inner {
                    let s = io.into_inner();
                    gave_back2.set(true);
                    std::mem::forget(s); // keep the descriptor open: the harness still looks at the poller's table
                } else {
                    drop(io);
                }
                prog.borrow_mut().done = true;
            })
            .unwrap();
    }
    let mut peer_pos = 0usize; // bytes the peer has written (read mode) / read (write mode)
    let mut peer_ok = true;
    writeln!(out, "created nonblock={}", created_nonblock as u8).unwrap();
    for op in &ops {
        let w: Vec<&str> = op.split_whitespace().collect();
        match w[0] {
            "peer" => {
                let n: usize = w[1].parse().unwrap();
                if mode_read {
                    let data: Vec<u8> = (0..n).map(|i| ((peer_pos + i) % 251) as u8).collect();
                    let mut off = 0;
                    while off < n {
                        match peer.write(&data[off..]) {
                            Ok(k) => off += k,
                            Err(_) => break,
                        }
                    }
                    peer_pos += off;
                } else {
                    let mut buf = vec![0u8; n];
                    let mut off = 0;
                    while off < n {
                        match peer.read(&mut buf[off..]) {
                            Ok(0) => break,
                            Ok(k) => {
                                for i in 0..k {
                                    if buf[off + i] != ((peer_pos + off + i) % 251) as u8 {
                                        peer_ok = false;
                                    }
                                }
                                off += k
                            }
                            Err(_) => break,
                        }
                    }
                    peer_pos += off;
                }
            }
            "settle" => settle(&mut el, &prog),
            // somebody tries to adapt the very fd the live adapter owns: the poller refuses (EEXIST); the refusal must
            // not cost the live adapter its registration
            "adaptsame" => {
                if !prog.borrow().done {
                    match h.adapt_io(SameFd(raw)) {
                        Ok(a2) => std::mem::forget(a2),
                        Err(_) => {}
                    }
                }
            }
            // the executor is removed while its task (which owns the adapter) is parked: the future is dropped,
            // and with it the adapter — whose Drop re-enters the loop's source list
            "removeexec" => {
                h.remove(exec_tok);
                prog.borrow_mut().done = true;
            }
            "finishpeer" => {
                // the peer keeps making progress (reads everything there is) and the loop keeps settling, until the
                // task is done or a whole round changes nothing
                for _ in 0..100000 {
                    let before = (prog.borrow().moved, peer_pos);
                    if !mode_read {
                        let mut buf = vec![0u8; 1 << 20];
                        loop {
                            match peer.read(&mut buf) {
                                Ok(0) => break,
                                Ok(k) => {
                                    for i in 0..k {
                                        if buf[i] != ((peer_pos + i) % 251) as u8 {
                                            peer_ok = false;
                                        }
                                    }
                                    peer_pos += k;
                                }
                                Err(_) => break,
                            }
                        }
                    }
                    settle(&mut el, &prog);
                    if prog.borrow().done || (prog.borrow().moved, peer_pos) == before {
                        break;
                    }
                }
                // what the task wrote last is still in the socket (also when the adapter is gone by now): the peer reads it
                if !mode_read {
                    let mut buf = vec![0u8; 1 << 20];
                    loop {
                        match peer.read(&mut buf) {
                            Ok(0) => break,
                            Ok(k) => {
                                for i in 0..k {
                                    if buf[i] != ((peer_pos + i) % 251) as u8 {
                                        peer_ok = false;
                                    }
                                }
                                peer_pos += k;
                            }
                            Err(_) => break,
                        }
                    }
                }
            }
            _ => {}
        }
        let p = prog.borrow();
        writeln!(
            out,
            "op {} -> moved={} peer={} ok={} done={} armed={} nonblock={}",
            op,
            p.moved,
            peer_pos,
            (p.pattern_ok && peer_ok && !p.io_error) as u8,
            p.done as u8,
            armed(epfd, raw),
            is_nonblock(&probe) as u8
        )
        .unwrap();
    }
    if end_into_inner && gave_back.get() {
        unsafe { rustix::io::close(raw) };
    }
}

pub fn run() -> i32 {
    let stdin = std::io::stdin();
    let out = std::io::stdout();
    let mut out = std::io::BufWriter::new(out.lock());
    let mut cur: Vec<String> = Vec::new();
    for line in stdin.lock().lines() {
        let line = line.unwrap();
        let l = line.trim();
        if l.is_empty() || l.starts_with('#') {
            continue;
        }
        if l.starts_with("case") {
            writeln!(out, "{}", l).unwrap();
            cur.clear();
        } else if l == "end" {
            run_case(&cur, &mut out);
        } else {
            cur.push(l.to_string());
        }
    }
    0
}
