//! C18: the real `TransientSource<T>` driven call by call.  A `Runner` source is inserted in a real
//! `EventLoop`; its `register` (which receives the loop's real `Poll`) executes one case: every
//! call on the wrapper, with instrumented children backed by real ping sources (eventfds), so a
//! double registration really is an EEXIST from epoll and a double unregistration an ENOENT.
use calloop::ping::{make_ping, Ping, PingSource};
use calloop::transient::TransientSource;
use calloop::{EventLoop, EventSource, Poll, PostAction, Readiness, Token, TokenFactory};
use std::cell::{Cell, RefCell};
use std::io::{BufRead, Write};
use std::os::unix::io::AsRawFd;
use std::rc::Rc;

type Log = Rc<RefCell<Vec<String>>>;

thread_local! {
    static NEXT_RET: Cell<PostAction> = Cell::new(PostAction::Continue);
}

struct Probe {
    id: usize,
    src: PingSource,
    _ping: Ping,
    log: Log,
    in_poller: bool,
}

impl Probe {
    fn new(id: usize, log: &Log) -> Probe {
        let (ping, src) = make_ping().unwrap();
        Probe {
            id,
            src,
            _ping: ping,
            log: log.clone(),
            in_poller: false,
        }
    }
}

// `#[derive(Default)]` on `TransientSource<T>` asks for `T: Default` although the empty wrapper holds no `T`.
impl Default for Probe {
    fn default() -> Probe {
        unreachable!("TransientSource::default() never builds a child")
    }
}

fn okerr<T, E>(r: &Result<T, E>) -> &'static str {
    if r.is_ok() {
        "ok"
    } else {
        "err"
    }
}

impl EventSource for Probe {
    type Event = ();
    type Metadata = ();
    type Ret = ();
    type Error = std::io::Error;

    fn process_events<F>(&mut self, _: Readiness, _: Token, _: F) -> Result<PostAction, Self::Error>
    where
        F: FnMut((), &mut ()),
    {
        self.log.borrow_mut().push(format!("pe {}", self.id));
        Ok(NEXT_RET.with(|c| c.get()))
    }

    fn register(&mut self, poll: &mut Poll, tf: &mut TokenFactory) -> calloop::Result<()> {
        let r = self.src.register(poll, tf);
        if r.is_ok() {
            self.in_poller = true;
        }
        self.log.borrow_mut().push(format!("reg {} register {}", self.id, okerr(&r)));
        r
    }

    fn reregister(&mut self, poll: &mut Poll, tf: &mut TokenFactory) -> calloop::Result<()> {
        let r = self.src.reregister(poll, tf);
        self.log.borrow_mut().push(format!("reg {} reregister {}", self.id, okerr(&r)));
        r
    }

    fn unregister(&mut self, poll: &mut Poll) -> calloop::Result<()> {
        let r = self.src.unregister(poll);
        if r.is_ok() {
            self.in_poller = false;
        }
        self.log.borrow_mut().push(format!("reg {} unregister {}", self.id, okerr(&r)));
        r
    }
}

impl Drop for Probe {
    fn drop(&mut self) {
        self.log
            .borrow_mut()
            .push(format!("drop {} {}", self.id, if self.in_poller { 1 } else { 0 }));
    }
}

/// number of fds in the kernel's epoll table, not counting polling's own notifier / timerfd
/// (their `data` is u64::MAX)
pub fn epoll_count(epfd: i32) -> usize {
    let s = std::fs::read_to_string(format!("/proc/self/fdinfo/{}", epfd)).unwrap_or_default();
    s.lines()
        .filter(|l| l.starts_with("tfd:") && !l.contains("data: ffffffffffffffff"))
        .count()
}

struct Runner {
    init: Option<usize>,
    ops: Vec<String>,
    log: Log,
    epfd: i32,
}

impl EventSource for Runner {
    type Event = ();
    type Metadata = ();
    type Ret = ();
    type Error = std::io::Error;

    fn process_events<F>(&mut self, _: Readiness, _: Token, _: F) -> Result<PostAction, Self::Error>
    where
        F: FnMut((), &mut ()),
    {
        Ok(PostAction::Continue)
    }

    fn register(&mut self, poll: &mut Poll, tf: &mut TokenFactory) -> calloop::Result<()> {
        let log = self.log.clone();
        let say = |s: String| log.borrow_mut().push(s);
        let mut ts: TransientSource<Probe> = match self.init {
            Some(c) => Probe::new(c, &self.log).into(),
            None => Default::default(),
        };
        let dummy = tf.token();
        for op in &self.ops {
            let w: Vec<&str> = op.split_whitespace().collect();
            say(format!("op {}", op));
            match w[0] {
                "pe" => {
                    let pa = match w[1] {
                        "cont" => PostAction::Continue,
                        "rereg" => PostAction::Reregister,
                        "disable" => PostAction::Disable,
                        _ => PostAction::Remove,
                    };
                    NEXT_RET.with(|c| c.set(pa));
                    let r = ts.process_events(
                        Readiness {
                            readable: true,
                            writable: false,
                            error: false,
                        },
                        dummy,
                        |_, _| {},
                    );
                    say(format!(
                        "ret {}",
                        match r {
                            Ok(PostAction::Continue) => "cont",
                            Ok(PostAction::Reregister) => "rereg",
                            Ok(PostAction::Disable) => "disable",
                            Ok(PostAction::Remove) => "remove",
                            Err(_) => "err",
                        }
                    ));
                }
                "remove" => {
                    ts.remove();
                    say("ret unit".into());
                }
                "replace" => {
                    let c: usize = w[1].parse().unwrap();
                    ts.replace(Probe::new(c, &self.log));
                    say("ret unit".into());
                }
                "register" => {
                    let r = ts.register(poll, tf);
                    say(format!("ret {}", okerr(&r)));
                }
                "reregister" => {
                    let r = ts.reregister(poll, tf);
                    say(format!("ret {}", okerr(&r)));
                }
                "unregister" => {
                    let r = ts.unregister(poll);
                    say(format!("ret {}", okerr(&r)));
                }
                "map" => {
                    let r = ts.map(|p| p.id);
                    say(match r {
                        Some(c) => format!("ret some {}", c),
                        None => "ret none".into(),
                    });
                }
                "isnone" => say(format!("ret {}", ts.is_none())),
                _ => say("bad-op".into()),
            }
            say(format!("epoll {}", epoll_count(self.epfd)));
        }
        say("end".into());
        drop(ts);
        say(format!("epoll {}", epoll_count(self.epfd)));
        Ok(())
    }

    fn reregister(&mut self, _: &mut Poll, _: &mut TokenFactory) -> calloop::Result<()> {
        Ok(())
    }

    fn unregister(&mut self, _: &mut Poll) -> calloop::Result<()> {
        Ok(())
    }
}

pub fn run() -> i32 {
    let event_loop: EventLoop<()> = EventLoop::try_new().unwrap();
    let handle = event_loop.handle();
    let epfd = event_loop.as_raw_fd();
    let stdin = std::io::stdin();
    let out = std::io::stdout();
    let mut out = std::io::BufWriter::new(out.lock());
    let mut init: Option<Option<usize>> = None;
    let mut ops: Vec<String> = Vec::new();
    for line in stdin.lock().lines() {
        let line = line.unwrap();
        let line = line.trim();
        if line.is_empty() || line.starts_with('#') {
            continue;
        }
        let w: Vec<&str> = line.split_whitespace().collect();
        match w[0] {
            "case" => {
                writeln!(out, "{}", line).unwrap();
                init = Some(if w[1] == "from" { Some(w[2].parse().unwrap()) } else { None });
                ops.clear();
            }
            "end" => {
                let log: Log = Rc::new(RefCell::new(Vec::new()));
                let runner = Runner {
                    init: init.take().unwrap(),
                    ops: std::mem::take(&mut ops),
                    log: log.clone(),
                    epfd,
                };
                let tok = handle.insert_source(runner, |_, _, _| {}).map_err(|e| e.error).unwrap();
                handle.remove(tok);
                for l in log.borrow().iter() {
                    writeln!(out, "{}", l).unwrap();
                }
            }
            _ => ops.push(line.to_string()),
        }
    }
    0
}
