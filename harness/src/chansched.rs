//! C04: real `channel()` / `sync_channel(n)` under controlled schedules (see sched.rs).
//! Sender thread ops: `send V` (Sender::send / SyncSender::send), `trysend V` (sync only), `clone`, `drop`.
use crate::sched::{epoll_user_fds, eventfd_count, Sched, StepResult};
use calloop::channel::{channel, sync_channel, Event, Sender, SyncSender};
use calloop::EventLoop;
use std::io::{BufRead, Write};
use std::os::unix::io::AsRawFd;
use std::sync::atomic::{AtomicI32, Ordering};
use std::sync::{Arc, Mutex};
use std::time::Duration;

struct Shared {
    delivered: Mutex<Vec<String>>,
    results: Mutex<Vec<String>>,
    epfd: AtomicI32,
    chanfd: AtomicI32,
}

enum Handles {
    Async(Vec<Sender<u64>>),
    Sync(Vec<SyncSender<u64>>),
}


/// one sender thread's program
fn exec_prog(prog: &[String], handles: &mut Handles, sh: &Shared, tid: usize) {
    let i = tid - 1;
    for op in prog {
        let w: Vec<&str> = op.split_whitespace().collect();
        match (w[0], &mut *handles) {
            ("send", Handles::Async(v)) => {
                if let Some(h) = v.last() {
                    let r = h.send(w[1].parse().unwrap());
                    sh.results.lock().unwrap().push(format!("t{} send {} {}", i + 1, w[1], if r.is_ok() { "ok" } else { "err" }));
                }
            }
            ("send", Handles::Sync(v)) => {
                if let Some(h) = v.last() {
                    let r = h.send(w[1].parse().unwrap());
                    sh.results.lock().unwrap().push(format!("t{} send {} {}", i + 1, w[1], if r.is_ok() { "ok" } else { "err" }));
                }
            }
            ("trysend", Handles::Sync(v)) => {
                if let Some(h) = v.last() {
                    let r = h.try_send(w[1].parse().unwrap());
                    sh.results.lock().unwrap().push(format!("t{} trysend {} {}", i + 1, w[1], if r.is_ok() { "ok" } else { "full" }));
                }
            }
            ("clone", Handles::Async(v)) => {
                if let Some(h) = v.last().cloned() {
                    v.push(h)
                }
            }
            ("clone", Handles::Sync(v)) => {
                if let Some(h) = v.last().cloned() {
                    v.push(h)
                }
            }
            ("drop", Handles::Async(v)) => {
                let h = v.pop();
                drop(h);
            }
            ("drop", Handles::Sync(v)) => {
                let h = v.pop();
                drop(h);
            }
            _ => {}
        }
            }
}

fn run_case(name: &str, cap: Option<usize>, progs: Vec<Vec<String>>, ndispatch: usize, schedule: Vec<usize>, out: &mut impl Write) {
    writeln!(out, "case {}", name).unwrap();
    let n = progs.len();
    let sched = Sched::global();
    sched.reset(n + 1);
    let shared = Arc::new(Shared {
        delivered: Mutex::new(Vec::new()),
        results: Mutex::new(Vec::new()),
        epfd: AtomicI32::new(-1),
        chanfd: AtomicI32::new(-1),
    });
    let mut joins = Vec::new();
    let mut first: Handles;
    let chan;
    match cap {
        None => {
            let (s, c) = channel::<u64>();
            first = Handles::Async(vec![s]);
            chan = c;
        }
        Some(k) => {
            let (s, c) = sync_channel::<u64>(k);
            first = Handles::Sync(vec![s]);
            chan = c;
        }
    }
    {
        let sh = shared.clone();
        joins.push(sched.spawn(0, move || {
            let mut el: EventLoop<'static, ()> = EventLoop::try_new().unwrap();
            let sh2 = sh.clone();
            el.handle()
                .insert_source(chan, move |ev, _, _| {
                    let s = match ev {
                        Event::Msg(v) => format!("{}", v),
                        Event::Closed => "closed".to_string(),
                    };
                    sh2.delivered.lock().unwrap().push(s);
                })
                .map_err(|e| e.error)
                .unwrap();
            let epfd = el.as_raw_fd();
            sh.epfd.store(epfd, Ordering::SeqCst);
            sh.chanfd.store(epoll_user_fds(epfd).first().copied().unwrap_or(-1), Ordering::SeqCst);
            calloop::verif::yield_point("loop.ready");
            for _ in 0..ndispatch {
                el.dispatch(Some(Duration::ZERO), &mut ()).unwrap();
            }
            calloop::verif::yield_point("loop.end");
        }));
    }
    // every sender thread starts with its own handle: the original goes to the last thread
    let mut per_thread: Vec<Handles> = Vec::new();
    for i in 0..n {
        let h = match &mut first {
            Handles::Async(v) => {
                if i + 1 == n {
                    Handles::Async(vec![v.pop().unwrap()])
                } else {
                    Handles::Async(vec![v[0].clone()])
                }
            }
            Handles::Sync(v) => {
                if i + 1 == n {
                    Handles::Sync(vec![v.pop().unwrap()])
                } else {
                    Handles::Sync(vec![v[0].clone()])
                }
            }
        };
        per_thread.push(h);
    }
    // handles a program leaves undropped stay alive for the rest of the case and are released when it is over
    let leftovers: Arc<Mutex<Vec<Handles>>> = Arc::new(Mutex::new(Vec::new()));
    for (i, (prog, mut handles)) in progs.into_iter().zip(per_thread.into_iter()).enumerate() {
        let sh = shared.clone();
        let lo = leftovers.clone();
        joins.push(sched.spawn(i + 1, move || {
            exec_prog(&prog, &mut handles, &sh, i + 1);
            lo.lock().unwrap().push(handles);
        }));
    }
    drop(first); // empty by now
    for t in 0..=n {
        sched.wait_parked(t);
    }
    let r = sched.step(0);
    assert_eq!(r, StepResult::At("loop.ready"));
    let snapshot = |sh: &Shared| -> String {
        let cfd = sh.chanfd.load(Ordering::SeqCst);
        let epfd = sh.epfd.load(Ordering::SeqCst);
        let reg = epoll_user_fds(epfd).contains(&cfd) as u8;
        format!(
            "counter={} delivered=[{}] reg={}",
            eventfd_count(cfd),
            sh.delivered.lock().unwrap().join(","),
            reg
        )
    };
    let mut loop_ended = false;
    let mut blocked: Vec<bool> = vec![false; n + 1];
    for &t in &schedule {
        let r = if t > n || (t == 0 && loop_ended) {
            StepResult::Skip
        } else {
            sched.step(t)
        };
        let r = if r == StepResult::At("loop.end") {
            loop_ended = true;
            StepResult::Done
        } else {
            r
        };
        if t <= n {
            blocked[t] = r == StepResult::Blocked;
        }
        // settle: a sender released from a blocking send by this step runs on to its next yield point
        for u in 1..=n {
            if u != t && blocked[u] {
                match sched.settle(u) {
                    StepResult::Blocked => {}
                    _ => blocked[u] = false,
                }
            }
        }
        let label = match r {
            StepResult::At(l) => l.to_string(),
            StepResult::Done => "done".into(),
            StepResult::Blocked => "blocked".into(),
            StepResult::Skip => "skip".into(),
            StepResult::Panicked => "panic".into(),
        };
        writeln!(out, "step {} {} {}", t, label, snapshot(&shared)).unwrap();
    }
    // clean-up (not part of the compared trace): the loop keeps dispatching so that blocked senders
    // can finish, then everything runs to its end; threads blocked for good are abandoned
    for _round in 0..3 {
        for t in (1..=n).chain(std::iter::once(0)) {
            for _ in 0..200 {
                match sched.step(t) {
                    StepResult::Done | StepResult::Skip | StepResult::Blocked | StepResult::Panicked => break,
                    _ => {}
                }
            }
        }
    }
    let mut res = shared.results.lock().unwrap().clone();
    res.sort();
    writeln!(out, "final results=[{}]", res.join(";")).unwrap();
    for (t, j) in joins.into_iter().enumerate() {
        if sched.status(t) == crate::sched::Status::Done {
            let _ = j.join();
        }
    }
}


/// Uncontrolled runs of the same programs (real races, no parking): the sender threads run freely, the
/// loop starts dispatching a little later (so that a blocking send is really parked) and goes on until
/// it has been quiet for a while.  Only the end state is reported; it supports the search for a failing
/// input and is not compared with the model.
fn run_race(name: &str, cap: Option<usize>, progs: Vec<Vec<String>>, rounds: usize, out: &mut impl Write) {
    writeln!(out, "case {}", name).unwrap();
    for round in 0..rounds {
        let n = progs.len();
        let shared = Arc::new(Shared {
            delivered: Mutex::new(Vec::new()),
            results: Mutex::new(Vec::new()),
            epfd: AtomicI32::new(-1),
            chanfd: AtomicI32::new(-1),
        });
        let mut first: Handles;
        let chan;
        match cap {
            None => {
                let (s, c) = channel::<u64>();
                first = Handles::Async(vec![s]);
                chan = c;
            }
            Some(k) => {
                let (s, c) = sync_channel::<u64>(k);
                first = Handles::Sync(vec![s]);
                chan = c;
            }
        }
        let mut el: EventLoop<'static, ()> = EventLoop::try_new().unwrap();
        let sh2 = shared.clone();
        el.handle()
            .insert_source(chan, move |ev, _, _| {
                let s = match ev {
                    Event::Msg(v) => format!("{}", v),
                    Event::Closed => "closed".to_string(),
                };
                sh2.delivered.lock().unwrap().push(s);
            })
            .map_err(|e| e.error)
            .unwrap();
        let finished = Arc::new(std::sync::atomic::AtomicUsize::new(0));
        let leftovers: Arc<Mutex<Vec<Handles>>> = Arc::new(Mutex::new(Vec::new()));
        for (i, prog) in progs.iter().cloned().enumerate() {
            let mut handles = match &mut first {
                Handles::Async(v) => Handles::Async(vec![if i + 1 == n { v.pop().unwrap() } else { v[0].clone() }]),
                Handles::Sync(v) => Handles::Sync(vec![if i + 1 == n { v.pop().unwrap() } else { v[0].clone() }]),
            };
            let sh = shared.clone();
            let fin = finished.clone();
            let lo = leftovers.clone();
            std::thread::spawn(move || {
                exec_prog(&prog, &mut handles, &sh, i + 1);
                // handles the program left over stay alive for the round (as in the controlled runs)
                lo.lock().unwrap().push(handles);
                fin.fetch_add(1, Ordering::SeqCst);
            });
        }
        drop(first);
        std::thread::sleep(Duration::from_millis(15));
        let deadline = std::time::Instant::now() + Duration::from_millis(1500);
        let mut quiet = 0;
        while std::time::Instant::now() < deadline {
            let before = shared.delivered.lock().unwrap().len();
            el.dispatch(Some(Duration::from_millis(5)), &mut ()).unwrap();
            let after = shared.delivered.lock().unwrap().len();
            if after == before && finished.load(Ordering::SeqCst) == n {
                quiet += 1;
                if quiet >= 4 {
                    break;
                }
            } else {
                quiet = 0;
            }
        }
        let mut res = shared.results.lock().unwrap().clone();
        res.sort();
        writeln!(
            out,
            "race {} finished={} delivered=[{}] results=[{}]",
            round,
            finished.load(Ordering::SeqCst),
            shared.delivered.lock().unwrap().join(","),
            res.join(";")
        )
        .unwrap();
        if finished.load(Ordering::SeqCst) != n {
            // a sender is blocked for good: leave it and the loop behind
            std::mem::forget(el);
        }
        drop(leftovers);
    }
    writeln!(out, "final").unwrap();
}

pub fn run() -> i32 {
    let stdin = std::io::stdin();
    let out = std::io::stdout();
    let mut out = std::io::BufWriter::new(out.lock());
    let mut name = String::new();
    let mut cap: Option<usize> = None;
    let mut progs: Vec<Vec<String>> = Vec::new();
    let mut nd = 0usize;
    let mut schedule: Vec<usize> = Vec::new();
    let mut race_rounds = 0usize;
    let parse_prog = |s: &str| -> Vec<String> { s.split(';').map(|x| x.trim().to_string()).filter(|x| !x.is_empty()).collect() };
    for line in stdin.lock().lines() {
        let line = line.unwrap();
        let l = line.trim();
        if l.is_empty() || l.starts_with('#') {
            continue;
        }
        let w: Vec<&str> = l.split_whitespace().collect();
        match w[0] {
            "case" => {
                name = w.get(1).unwrap_or(&"").to_string();
                cap = None;
                progs.clear();
                nd = 0;
                race_rounds = 0;
                schedule.clear();
            }
            "chan" => {
                cap = if w[1] == "async" { None } else { Some(w[2].parse().unwrap()) };
            }
            "senders" => progs = vec![Vec::new(); w[1].parse().unwrap()],
            "prog" => {
                let i: usize = w[1].trim_end_matches(':').parse().unwrap();
                let body = l.splitn(2, ':').nth(1).unwrap_or("");
                if i >= 1 && i <= progs.len() {
                    progs[i - 1] = parse_prog(body);
                }
            }
            "loop:" => nd = parse_prog(l.splitn(2, ':').nth(1).unwrap_or("")).len(),
            "sched" => schedule = w[1..].iter().filter_map(|x| x.parse().ok()).collect(),
            "race" => race_rounds = w[1].parse().unwrap_or(0),
            "end" => {
                if race_rounds > 0 {
                    run_race(&name, cap, progs.clone(), race_rounds, &mut out)
                } else {
                    run_case(&name, cap, progs.clone(), nd, schedule.clone(), &mut out)
                }
            }
            _ => {}
        }
    }
    0
}
