//! `vh core` — single-threaded histories on a real `EventLoop` (DESIGN.md §2.3, Appendix A).
//!
//! Reads cases (`case <name>` … `end`) of operations, executes them on the real crate with real
//! eventfds / timers / channels, runs the scripted callback programs from inside the real
//! callbacks, and prints one observation line per effect.  After every top-level operation it
//! prints the loop's bookkeeping (`st …`, verification hook) and the kernel's epoll table
//! (`ep …`, from /proc/self/fdinfo).
use calloop::channel::{channel, sync_channel, Channel, Event as ChanEvent, Sender, SyncSender};
use calloop::generic::Generic;
use calloop::ping::{make_ping, Ping, PingSource};
use calloop::timer::{TimeoutAction, Timer};
use calloop::{
    Dispatcher, EventLoop, EventSource, Idle, Interest, LoopHandle, Mode, Poll, PostAction, Readiness,
    RegistrationToken, Token, TokenFactory,
};
use std::cell::{Cell, RefCell};
use std::collections::HashMap;
use std::io::{BufRead, Write};
use std::os::unix::io::{AsFd, AsRawFd, BorrowedFd, OwnedFd};
use std::panic::{catch_unwind, AssertUnwindSafe};
use std::rc::Rc;
use std::time::{Duration, Instant};

type Log = Rc<RefCell<Vec<String>>>;

#[derive(Clone, Debug)]
struct FdRc(Rc<OwnedFd>);
impl AsFd for FdRc {
    fn as_fd(&self) -> BorrowedFd<'_> {
        self.0.as_fd()
    }
}

#[derive(Clone, Debug, PartialEq)]
enum Ret {
    Unit,
    Cont,
    Rereg,
    Disable,
    Remove,
    Err,
    Drop,
    ToInstant(i64),
    Overflow,
}

#[derive(Clone, Debug, Default)]
struct Script {
    ops: Vec<String>,
    ret: Option<Ret>,
}

#[derive(Clone, Copy, Debug, PartialEq)]
enum Bs {
    None,
    Synth(usize),
    Err,
}

#[derive(Clone, Debug)]
struct Plan {
    reg_fail: Option<usize>,
    rereg_fail: Option<usize>,
    unreg_fail: Option<usize>,
    bs: Bs,
    regtok: Option<(u32, u16)>,
    /// roll a partial registration back when a later sub-registration fails (`rb=0`: leave it)
    rollback: bool,
}

impl Default for Plan {
    fn default() -> Self {
        Plan {
            reg_fail: None,
            rereg_fail: None,
            unreg_fail: None,
            bs: Bs::None,
            regtok: None,
            rollback: true,
        }
    }
}

fn pa_str<E>(r: &Result<PostAction, E>) -> &'static str {
    match r {
        Ok(PostAction::Continue) => "cont",
        Ok(PostAction::Reregister) => "rereg",
        Ok(PostAction::Disable) => "disable",
        Ok(PostAction::Remove) => "remove",
        Err(_) => "err",
    }
}

/// Wrapper that logs the drop of a source object and the bracket of every `process_events` call.
struct Traced<S> {
    k: usize,
    inner: S,
    log: Log,
}

impl<S> Drop for Traced<S> {
    fn drop(&mut self) {
        self.log.borrow_mut().push(format!("drop {}", self.k));
    }
}

impl<S: EventSource> EventSource for Traced<S> {
    type Event = S::Event;
    type Metadata = S::Metadata;
    type Ret = S::Ret;
    type Error = S::Error;
    fn process_events<F>(&mut self, r: Readiness, t: Token, cb: F) -> Result<PostAction, Self::Error>
    where
        F: FnMut(Self::Event, &mut Self::Metadata) -> Self::Ret,
    {
        self.log.borrow_mut().push(format!("pe {}", self.k));
        let res = self.inner.process_events(r, t, cb);
        self.log.borrow_mut().push(format!("peret {} {}", self.k, pa_str(&res)));
        res
    }
    fn register(&mut self, poll: &mut Poll, tf: &mut TokenFactory) -> calloop::Result<()> {
        self.inner.register(poll, tf)
    }
    fn reregister(&mut self, poll: &mut Poll, tf: &mut TokenFactory) -> calloop::Result<()> {
        self.inner.reregister(poll, tf)
    }
    fn unregister(&mut self, poll: &mut Poll) -> calloop::Result<()> {
        self.inner.unregister(poll)
    }
}

/// Instrumented composite source: NSUB `Generic`s over eventfds, optional lifecycle hooks,
/// scripted registration failures.
struct Custom<const LIFE: bool> {
    k: usize,
    subs: Vec<Generic<FdRc>>,
    plan: Rc<RefCell<Plan>>,
    log: Log,
}

fn injected() -> calloop::Error {
    calloop::Error::IoError(std::io::Error::new(std::io::ErrorKind::Other, "injected"))
}

fn tokstr(t: Token) -> String {
    let (a, b, c) = calloop::verif::token_fields(t);
    format!("{}.{}.{}", a, b, c)
}

impl<const LIFE: bool> EventSource for Custom<LIFE> {
    type Event = usize;
    type Metadata = ();
    type Ret = Result<PostAction, std::io::Error>;
    type Error = std::io::Error;
    const NEEDS_EXTRA_LIFECYCLE_EVENTS: bool = LIFE;

    fn process_events<F>(&mut self, r: Readiness, t: Token, mut cb: F) -> Result<PostAction, Self::Error>
    where
        F: FnMut(usize, &mut ()) -> Self::Ret,
    {
        self.log.borrow_mut().push(format!("pe {}", self.k));
        let mut go = || -> Result<PostAction, std::io::Error> {
            let mut action = PostAction::Continue;
            for (j, sub) in self.subs.iter_mut().enumerate() {
                let a = sub.process_events(r, t, |_, _| cb(j, &mut ()))?;
                action |= a;
            }
            Ok(action)
        };
        let res = go();
        self.log.borrow_mut().push(format!("peret {} {}", self.k, pa_str(&res)));
        res
    }

    fn register(&mut self, poll: &mut Poll, tf: &mut TokenFactory) -> calloop::Result<()> {
        for j in 0..self.subs.len() {
            let r = if self.plan.borrow().reg_fail == Some(j) {
                Err(injected())
            } else {
                self.subs[j].register(poll, tf)
            };
            self.log
                .borrow_mut()
                .push(format!("reg {} register sub={} {}", self.k, j, if r.is_ok() { "ok" } else { "err" }));
            if let Err(e) = r {
                // a well-behaved composite source rolls its partial registration back; many real ones
                // just propagate the error with `?` (`rb=0`)
                let rollback = self.plan.borrow().rollback;
                for i in (0..if rollback { j } else { 0 }).rev() {
                    let u = self.subs[i].unregister(poll);
                    self.log.borrow_mut().push(format!(
                        "reg {} unregister sub={} {}",
                        self.k,
                        i,
                        if u.is_ok() { "ok" } else { "err" }
                    ));
                }
                return Err(e);
            }
        }
        Ok(())
    }

    fn reregister(&mut self, poll: &mut Poll, tf: &mut TokenFactory) -> calloop::Result<()> {
        for j in 0..self.subs.len() {
            if self.plan.borrow().rereg_fail == Some(j) {
                self.log.borrow_mut().push(format!("reg {} reregister sub={} err", self.k, j));
                return Err(injected());
            }
            let r = self.subs[j].reregister(poll, tf);
            self.log
                .borrow_mut()
                .push(format!("reg {} reregister sub={} {}", self.k, j, if r.is_ok() { "ok" } else { "err" }));
            r?;
        }
        Ok(())
    }

    fn unregister(&mut self, poll: &mut Poll) -> calloop::Result<()> {
        for j in 0..self.subs.len() {
            if self.plan.borrow().unreg_fail == Some(j) {
                self.log.borrow_mut().push(format!("reg {} unregister sub={} err", self.k, j));
                return Err(injected());
            }
            let r = self.subs[j].unregister(poll);
            self.log
                .borrow_mut()
                .push(format!("reg {} unregister sub={} {}", self.k, j, if r.is_ok() { "ok" } else { "err" }));
            r?;
        }
        Ok(())
    }

    fn before_sleep(&mut self) -> calloop::Result<Option<(Readiness, Token)>> {
        let bs = self.plan.borrow().bs;
        match bs {
            Bs::None => {
                self.log.borrow_mut().push(format!("bs {} none", self.k));
                Ok(None)
            }
            Bs::Err => {
                self.log.borrow_mut().push(format!("bs {} err", self.k));
                Err(injected())
            }
            Bs::Synth(j) => {
                // the token sub-source j was registered with is not visible from here: a fresh factory
                // hands out sub-ids in order, so it is (slot id, version, j) of the registration token
                let t = self
                    .plan
                    .borrow()
                    .regtok
                    .map(|(id, ver)| calloop::verif::token_from_fields(id, ver, j as u16));
                match t {
                    Some(t) => {
                        self.log.borrow_mut().push(format!("bs {} synth {}", self.k, j));
                        Ok(Some((
                            Readiness {
                                readable: true,
                                writable: false,
                                error: false,
                            },
                            t,
                        )))
                    }
                    None => {
                        self.log.borrow_mut().push(format!("bs {} none", self.k));
                        Ok(None)
                    }
                }
            }
        }
    }

    fn before_handle_events(&mut self, events: calloop::EventIterator<'_>) {
        let mut s = format!("bhe {}", self.k);
        for (r, t) in events {
            s.push_str(&format!(" {}:{}{}", tokstr(t), r.readable as u8, r.writable as u8));
        }
        self.log.borrow_mut().push(s);
    }
}

impl<const LIFE: bool> Drop for Custom<LIFE> {
    fn drop(&mut self) {
        self.log.borrow_mut().push(format!("drop {}", self.k));
    }
}

enum SrcObj {
    Ping(PingSource),
    Timer(Timer),
    Chan(Channel<u64>),
    Gen(Generic<FdRc>),
    Custom(Custom<false>),
    CustomLife(Custom<true>),
}

enum Senders {
    Async(Vec<Sender<u64>>),
    Sync(Vec<SyncSender<u64>>),
}

enum Disp {
    Timer(Dispatcher<'static, Traced<Timer>, ()>),
    Gen(Dispatcher<'static, Traced<Generic<FdRc>>, ()>),
    Ping(Dispatcher<'static, Traced<PingSource>, ()>),
}

struct World {
    handle_cell: RefCell<Option<LoopHandle<'static, ()>>>,
    log: Log,
    t0: Instant,
    tick: Duration,
    now_tick: Cell<i64>,
    srcs: RefCell<HashMap<usize, SrcObj>>,
    custom_fds: RefCell<HashMap<usize, Vec<usize>>>,
    pings: RefCell<HashMap<usize, Vec<Ping>>>,
    senders: RefCell<HashMap<usize, Senders>>,
    tokens: RefCell<HashMap<usize, RegistrationToken>>,
    scripts: RefCell<HashMap<(usize, usize), Script>>, // (K, 0) = default, (K, n) = n-th invocation
    invocations: RefCell<HashMap<usize, usize>>,
    fds: RefCell<HashMap<usize, Rc<OwnedFd>>>,
    idles: RefCell<HashMap<usize, Idle<'static>>>,
    idle_scripts: RefCell<HashMap<usize, Script>>,
    plans: RefCell<HashMap<usize, Rc<RefCell<Plan>>>>,
    disps: RefCell<HashMap<usize, Disp>>,
    created: RefCell<std::collections::HashSet<usize>>,
    epfd: i32,
}

impl World {
    fn handle(&self) -> LoopHandle<'static, ()> {
        self.handle_cell.borrow().as_ref().expect("loop handle already released").clone()
    }
}

fn say(w: &World, s: String) {
    w.log.borrow_mut().push(s);
}

fn err_class(e: &calloop::Error) -> String {
    match e {
        calloop::Error::InvalidToken => "InvalidToken".into(),
        calloop::Error::IoError(ioe) => match ioe.raw_os_error() {
            Some(17) => "Io:EEXIST".into(),
            Some(2) => "Io:ENOENT".into(),
            Some(9) => "Io:EBADF".into(),
            Some(1) => "Io:EPERM".into(),
            _ => "Io:other".into(),
        },
        calloop::Error::OtherError(_) => "Other".into(),
    }
}

fn parse_ret(w: &[&str]) -> Option<Ret> {
    Some(match w[0] {
        "unit" => Ret::Unit,
        "cont" => Ret::Cont,
        "rereg" => Ret::Rereg,
        "disable" => Ret::Disable,
        "remove" => Ret::Remove,
        "err" => Ret::Err,
        "drop" => Ret::Drop,
        "toinstant" => Ret::ToInstant(w.get(1)?.parse().ok()?),
        "overflow" => Ret::Overflow,
        _ => return None,
    })
}

fn ret_str(r: &Ret) -> String {
    match r {
        Ret::Unit => "unit".into(),
        Ret::Cont => "cont".into(),
        Ret::Rereg => "rereg".into(),
        Ret::Disable => "disable".into(),
        Ret::Remove => "remove".into(),
        Ret::Err => "err".into(),
        Ret::Drop => "drop".into(),
        Ret::ToInstant(d) => format!("toinstant {}", d),
        Ret::Overflow => "overflow".into(),
    }
}

/// `script K N|* : op ; op ; ret R`
fn parse_script(body: &str) -> Script {
    let mut s = Script::default();
    for part in body.split(';') {
        let p = part.trim();
        if p.is_empty() {
            continue;
        }
        let w: Vec<&str> = p.split_whitespace().collect();
        if w[0] == "ret" {
            s.ret = parse_ret(&w[1..]);
        } else {
            s.ops.push(p.to_string());
        }
    }
    s
}

fn run_callback(w: &Rc<World>, k: usize, payload: String) -> Ret {
    say(w, format!("cb {} {}", k, payload));
    let n = {
        let mut inv = w.invocations.borrow_mut();
        let e = inv.entry(k).or_insert(0);
        *e += 1;
        *e
    };
    let script = {
        let sc = w.scripts.borrow();
        sc.get(&(k, n)).or_else(|| sc.get(&(k, 0))).cloned().unwrap_or_default()
    };
    for op in &script.ops {
        exec_op(w, op, true);
    }
    let r = script.ret.clone().unwrap_or(Ret::Unit);
    say(w, format!("cbret {} {}", k, ret_str(&r)));
    r
}

fn post_action(r: &Ret) -> Result<PostAction, std::io::Error> {
    match r {
        Ret::Rereg => Ok(PostAction::Reregister),
        Ret::Disable => Ok(PostAction::Disable),
        Ret::Remove => Ok(PostAction::Remove),
        Ret::Err => Err(std::io::Error::new(std::io::ErrorKind::Other, "scripted")),
        _ => Ok(PostAction::Continue),
    }
}

fn deadline_of(w: &World, d: i64) -> Instant {
    if d >= 0 {
        w.t0 + w.tick * (d as u32)
    } else {
        w.t0 - w.tick * ((-d) as u32)
    }
}

fn tick_of(w: &World, i: Instant) -> i64 {
    let tick = w.tick.as_nanos() as i128;
    let delta: i128 = if i >= w.t0 {
        (i - w.t0).as_nanos() as i128
    } else {
        -((w.t0 - i).as_nanos() as i128)
    };
    // deadlines are tick-aligned; round to the nearest tick
    ((delta + tick / 2).div_euclid(tick)) as i64
}

fn timer_action(w: &World, r: &Ret) -> TimeoutAction {
    match r {
        Ret::ToInstant(d) => TimeoutAction::ToInstant(deadline_of(w, *d)),
        Ret::Overflow => TimeoutAction::ToDuration(Duration::MAX),
        _ => TimeoutAction::Drop,
    }
}

fn new_eventfd() -> Rc<OwnedFd> {
    use rustix::event::{eventfd, EventfdFlags};
    Rc::new(eventfd(0, EventfdFlags::CLOEXEC | EventfdFlags::NONBLOCK).unwrap())
}

fn parse_interest(s: &str) -> Interest {
    match s {
        "r" => Interest::READ,
        "w" => Interest::WRITE,
        "rw" => Interest::BOTH,
        _ => Interest::EMPTY,
    }
}

fn parse_mode(s: &str) -> Mode {
    match s {
        "edge" => Mode::Edge,
        "oneshot" => Mode::OneShot,
        _ => Mode::Level,
    }
}

fn report_result(w: &World, what: &str, r: calloop::Result<()>) {
    match r {
        Ok(()) => say(w, format!("op {} -> ok", what)),
        Err(e) => say(w, format!("op {} -> err {}", what, err_class(&e))),
    }
}

fn insert(w: &Rc<World>, k: usize, keep: bool) {
    let obj = w.srcs.borrow_mut().remove(&k);
    let obj = match obj {
        Some(o) => o,
        None => {
            say(w, format!("ins {} nosource", k));
            return;
        }
    };
    let log = w.log.clone();
    let res: Result<RegistrationToken, calloop::Error> = match obj {
        SrcObj::Ping(s) => {
            let ww = w.clone();
            let d = Dispatcher::new(Traced { k, inner: s, log }, move |(), _, _| {
                run_callback(&ww, k, "unit".into());
            });
            let r = w.handle().register_dispatcher(d.clone());
            if keep {
                w.disps.borrow_mut().insert(k, Disp::Ping(d));
            }
            r
        }
        SrcObj::Timer(s) => {
            let ww = w.clone();
            let d = Dispatcher::new(Traced { k, inner: s, log }, move |dl: Instant, _, _| {
                let r = run_callback(&ww, k, format!("deadline {}", tick_of(&ww, dl)));
                timer_action(&ww, &r)
            });
            let r = w.handle().register_dispatcher(d.clone());
            if keep {
                w.disps.borrow_mut().insert(k, Disp::Timer(d));
            }
            r
        }
        SrcObj::Chan(s) => {
            let ww = w.clone();
            w.handle()
                .insert_source(Traced { k, inner: s, log }, move |ev, _, _| {
                    let p = match ev {
                        ChanEvent::Msg(v) => format!("msg {}", v),
                        ChanEvent::Closed => "closed".into(),
                    };
                    run_callback(&ww, k, p);
                })
                .map_err(|e| e.error)
        }
        SrcObj::Gen(s) => {
            let ww = w.clone();
            let d = Dispatcher::new(Traced { k, inner: s, log }, move |r: Readiness, _, _| {
                let ret = run_callback(&ww, k, format!("ready {}{}", r.readable as u8, r.writable as u8));
                post_action(&ret)
            });
            let r = w.handle().register_dispatcher(d.clone());
            if keep {
                w.disps.borrow_mut().insert(k, Disp::Gen(d));
            }
            r
        }
        SrcObj::Custom(s) => {
            let ww = w.clone();
            w.handle()
                .insert_source(s, move |j, _, _| {
                    let ret = run_callback(&ww, k, format!("sub {}", j));
                    post_action(&ret)
                })
                .map_err(|e| {
                    // the source is handed back; keep it so that the insertion can be retried
                    ww_store(w, k, SrcObj::Custom(e.inserted));
                    e.error
                })
        }
        SrcObj::CustomLife(s) => {
            let ww = w.clone();
            w.handle()
                .insert_source(s, move |j, _, _| {
                    let ret = run_callback(&ww, k, format!("sub {}", j));
                    post_action(&ret)
                })
                .map_err(|e| {
                    ww_store(w, k, SrcObj::CustomLife(e.inserted));
                    e.error
                })
        }
    };
    match res {
        Ok(t) => {
            let (id, ver, _) = calloop::verif::reg_token_fields(t);
            w.tokens.borrow_mut().insert(k, t);
            if let Some(p) = w.plans.borrow().get(&k) {
                p.borrow_mut().regtok = Some((id, ver));
            }
            say(w, format!("ins {} ok {}.{}", k, id, ver));
        }
        Err(e) => say(w, format!("ins {} err {}", k, err_class(&e))),
    }
}

fn ww_store(w: &Rc<World>, k: usize, o: SrcObj) {
    w.srcs.borrow_mut().insert(k, o);
}

fn exec_op(w: &Rc<World>, op: &str, _in_cb: bool) {
    let t: Vec<&str> = op.split_whitespace().collect();
    if t.is_empty() {
        return;
    }
    let num = |i: usize| -> usize { t.get(i).and_then(|s| s.parse().ok()).unwrap_or(0) };
    say(w, format!("> {}", op));
    match t[0] {
        "new" => {
            let k = num(1);
            // a source id names one object for the whole case
            if !w.created.borrow_mut().insert(k) {
                say(w, format!("op {} -> exists", op));
                return;
            }
            let log = w.log.clone();
            match t[2] {
                "ping" => {
                    let (p, s) = make_ping().unwrap();
                    w.pings.borrow_mut().insert(k, vec![p]);
                    w.srcs.borrow_mut().insert(k, SrcObj::Ping(s));
                }
                "timer" => {
                    let tm = if t[3] == "none" {
                        Timer::from_duration(Duration::MAX)
                    } else {
                        Timer::from_deadline(deadline_of(w, t[3].parse().unwrap()))
                    };
                    w.srcs.borrow_mut().insert(k, SrcObj::Timer(tm));
                }
                "chan" => {
                    let (s, c) = channel::<u64>();
                    w.senders.borrow_mut().insert(k, Senders::Async(vec![s]));
                    w.srcs.borrow_mut().insert(k, SrcObj::Chan(c));
                }
                "sync" => {
                    let (s, c) = sync_channel::<u64>(num(3));
                    w.senders.borrow_mut().insert(k, Senders::Sync(vec![s]));
                    w.srcs.borrow_mut().insert(k, SrcObj::Chan(c));
                }
                "gen" => {
                    let f = num(3);
                    let fd = w.fds.borrow().get(&f).cloned();
                    if let Some(fd) = fd {
                        let g = Generic::new(FdRc(fd), parse_interest(t[4]), parse_mode(t[5]));
                        w.srcs.borrow_mut().insert(k, SrcObj::Gen(g));
                    } else {
                        w.created.borrow_mut().remove(&k);
                        say(w, format!("op {} -> nofd", op));
                    }
                }
                "custom" => {
                    let nsub = num(3);
                    let life = num(4) == 1;
                    let plan = Rc::new(RefCell::new(Plan::default()));
                    w.plans.borrow_mut().insert(k, plan.clone());
                    let mut subs = Vec::new();
                    let mut ids = Vec::new();
                    for j in 0..nsub {
                        let f = 1000 * k + j; // logical fd id of sub-source j
                        let fd = new_eventfd();
                        w.fds.borrow_mut().insert(f, fd.clone());
                        ids.push(f);
                        subs.push(Generic::new(FdRc(fd), Interest::READ, Mode::Level));
                    }
                    w.custom_fds.borrow_mut().insert(k, ids);
                    if life {
                        w.srcs.borrow_mut().insert(
                            k,
                            SrcObj::CustomLife(Custom::<true> {
                                k,
                                subs,
                                plan,
                                log,
                            }),
                        );
                    } else {
                        w.srcs.borrow_mut().insert(
                            k,
                            SrcObj::Custom(Custom::<false> {
                                k,
                                subs,
                                plan,
                                log,
                            }),
                        );
                    }
                }
                _ => say(w, format!("bad-op {}", op)),
            }
        }
        "fd" => {
            if w.fds.borrow().contains_key(&num(1)) {
                say(w, format!("op {} -> exists", op));
            } else {
                w.fds.borrow_mut().insert(num(1), new_eventfd());
            }
        }
        "plan" => {
            // plan K reg=J|- rereg=J|- unreg=J|- bs=none|err|synthJ [rb=0]
            let k = num(1);
            if let Some(p) = w.plans.borrow().get(&k) {
                let mut p = p.borrow_mut();
                p.rollback = true; // every plan line is complete: `rb=0` must be repeated to stay in force
                for kv in &t[2..] {
                    let (key, val) = kv.split_once('=').unwrap_or((kv, "-"));
                    let v: Option<usize> = val.parse().ok();
                    match key {
                        "reg" => p.reg_fail = v,
                        "rereg" => p.rereg_fail = v,
                        "unreg" => p.unreg_fail = v,
                        "rb" => p.rollback = val != "0",
                        "bs" => {
                            p.bs = if val == "err" {
                                Bs::Err
                            } else if let Some(j) = val.strip_prefix("synth") {
                                Bs::Synth(j.parse().unwrap_or(0))
                            } else {
                                Bs::None
                            }
                        }
                        _ => {}
                    }
                }
            }
        }
        "churn" => {
            // N times: insert a source without any fd and remove it again (slot reuse, generation bumps)
            for _ in 0..num(1) {
                let plan = Rc::new(RefCell::new(Plan::default()));
                let c = Custom::<false> {
                    k: usize::MAX,
                    subs: Vec::new(),
                    plan,
                    log: Rc::new(RefCell::new(Vec::new())),
                };
                if let Ok(t) = w.handle().insert_source(c, |_, _, _| Ok(PostAction::Continue)) {
                    w.handle().remove(t);
                }
            }
        }
        "insert" => insert(w, num(1), false),
        "insertd" => insert(w, num(1), true),
        "remove" => {
            let tok = w.tokens.borrow().get(&num(1)).copied();
            match tok {
                Some(tok) => {
                    w.handle().remove(tok);
                    say(w, format!("op {} -> ok", op));
                }
                None => say(w, format!("op {} -> notoken", op)),
            }
        }
        "disable" | "enable" | "update" => {
            let tok = w.tokens.borrow().get(&num(1)).copied();
            match tok {
                Some(tok) => {
                    let r = match t[0] {
                        "disable" => w.handle().disable(&tok),
                        "enable" => w.handle().enable(&tok),
                        _ => w.handle().update(&tok),
                    };
                    report_result(w, op, r);
                }
                None => say(w, format!("op {} -> notoken", op)),
            }
        }
        "ping" => {
            let p = w.pings.borrow().get(&num(1)).and_then(|v| v.last().cloned());
            match p {
                Some(p) => p.ping(),
                None => say(w, format!("op {} -> nohandle", op)),
            }
        }
        "cloneping" => {
            let mut m = w.pings.borrow_mut();
            if let Some(v) = m.get_mut(&num(1)) {
                if let Some(p) = v.last().cloned() {
                    v.push(p);
                }
            }
        }
        "dropping" => {
            let p = w.pings.borrow_mut().get_mut(&num(1)).and_then(|v| v.pop());
            drop(p);
        }
        "send" => {
            let v = num(2) as u64;
            let m = w.senders.borrow();
            let r = match m.get(&num(1)) {
                Some(Senders::Async(s)) if !s.is_empty() => Some(s[s.len() - 1].send(v).is_ok()),
                Some(Senders::Sync(s)) if !s.is_empty() => Some(match s[s.len() - 1].try_send(v) {
                    Ok(()) => true,
                    Err(_) => false,
                }),
                _ => None,
            };
            drop(m);
            match r {
                Some(true) => say(w, format!("op {} -> ok", op)),
                Some(false) => say(w, format!("op {} -> fail", op)),
                None => say(w, format!("op {} -> nohandle", op)),
            }
        }
        "clonesender" => {
            let mut m = w.senders.borrow_mut();
            match m.get_mut(&num(1)) {
                Some(Senders::Async(s)) if !s.is_empty() => {
                    let c = s[s.len() - 1].clone();
                    s.push(c)
                }
                Some(Senders::Sync(s)) if !s.is_empty() => {
                    let c = s[s.len() - 1].clone();
                    s.push(c)
                }
                _ => {}
            }
        }
        "dropsender" => {
            let mut m = w.senders.borrow_mut();
            match m.get_mut(&num(1)) {
                Some(Senders::Async(s)) => {
                    let x = s.pop();
                    drop(m);
                    drop(x);
                }
                Some(Senders::Sync(s)) => {
                    let x = s.pop();
                    drop(m);
                    drop(x);
                }
                _ => {}
            }
        }
        "write" => {
            // add N to the eventfd counter of fd F
            let fd = w.fds.borrow().get(&num(1)).cloned();
            if let Some(fd) = fd {
                let n = num(2) as u64;
                let _ = rustix::io::write(&*fd, &n.to_ne_bytes());
            }
        }
        "read" => {
            let fd = w.fds.borrow().get(&num(1)).cloned();
            if let Some(fd) = fd {
                let mut buf = [0u8; 8];
                let _ = rustix::io::read(&*fd, &mut buf);
            }
        }
        "advance" => {
            let n = num(1) as i64;
            let target_tick = w.now_tick.get() + n;
            w.now_tick.set(target_tick);
            let target = w.t0 + w.tick * (target_tick as u32) + w.tick / 2;
            let now = Instant::now();
            if target > now {
                std::thread::sleep(target - now);
            }
        }
        "setdeadline" => {
            let d = w.disps.borrow();
            match d.get(&num(1)) {
                Some(Disp::Timer(disp)) => {
                    // `none`: a deadline that cannot be represented (set_duration(MAX)) — the timer is parked
                    let dl = if t[2] == "none" { None } else { Some(deadline_of(w, t[2].parse().unwrap())) };
                    match catch_unwind(AssertUnwindSafe(|| match dl {
                        Some(dl) => disp.as_source_mut().inner.set_deadline(dl),
                        None => disp.as_source_mut().inner.set_duration(Duration::MAX),
                    })) {
                        Ok(()) => {}
                        Err(_) => say(w, format!("op {} -> borrowed", op)),
                    }
                }
                _ => say(w, format!("op {} -> nodisp", op)),
            }
        }
        "setinterest" => {
            let d = w.disps.borrow();
            match d.get(&num(1)) {
                Some(Disp::Gen(disp)) => {
                    let (i, m) = (parse_interest(t[2]), parse_mode(t[3]));
                    match catch_unwind(AssertUnwindSafe(|| {
                        let mut g = disp.as_source_mut();
                        g.inner.interest = i;
                        g.inner.mode = m;
                    })) {
                        Ok(()) => {}
                        Err(_) => say(w, format!("op {} -> borrowed", op)),
                    }
                }
                _ => say(w, format!("op {} -> nodisp", op)),
            }
        }
        "dropdisp" => {
            let d = w.disps.borrow_mut().remove(&num(1));
            drop(d);
        }
        "idle" => {
            let i = num(1);
            let ww = w.clone();
            let idle = w.handle().insert_idle(move |_| {
                say(&ww, format!("idle {}", i));
                let sc = ww.idle_scripts.borrow().get(&i).cloned().unwrap_or_default();
                for op in &sc.ops {
                    exec_op(&ww, op, true);
                }
                say(&ww, format!("idleret {}", i));
            });
            w.idles.borrow_mut().insert(i, idle);
        }
        "cancelidle" => {
            let x = w.idles.borrow_mut().remove(&num(1));
            if let Some(x) = x {
                x.cancel();
            }
        }
        "dropidle" => {
            let x = w.idles.borrow_mut().remove(&num(1));
            drop(x);
        }
        _ => say(w, format!("bad-op {}", op)),
    }
}

fn stats_line(w: &World, el: &EventLoop<'static, ()>) -> String {
    let s = w.handle().verif_stats();
    format!(
        "st slots={} occ={} life={} heap={} idles={} pend={} synth={}",
        s.slots,
        s.occupied,
        s.lifecycle_len,
        s.timer_heap_len,
        s.idles_len,
        s.pending_action,
        el.verif_synthetic_len()
    )
}

/// The kernel's epoll table: one entry per registered fd, `F=key/rw/mode`, sorted by logical fd.
fn epoll_line(w: &World) -> String {
    let s = std::fs::read_to_string(format!("/proc/self/fdinfo/{}", w.epfd)).unwrap_or_default();
    let mut raw_to_logical: HashMap<i32, String> = HashMap::new();
    for (f, fd) in w.fds.borrow().iter() {
        raw_to_logical.insert(fd.as_raw_fd(), format!("{}", f));
    }
    let mut rows = Vec::new();
    for l in s.lines() {
        if !l.starts_with("tfd:") {
            continue;
        }
        let f: Vec<&str> = l.split_whitespace().collect();
        // tfd: N events: HEX data: HEX ...
        let tfd: i32 = f[1].parse().unwrap_or(-1);
        let events = u32::from_str_radix(f[3], 16).unwrap_or(0);
        let data = u64::from_str_radix(f[5], 16).unwrap_or(0);
        if data == u64::MAX {
            continue;
        }
        let (a, b, c) = calloop::verif::token_unpack(data as usize);
        let name = raw_to_logical.get(&tfd).cloned().unwrap_or_else(|| "?".into());
        let mode = if events & (1 << 31) != 0 {
            "E"
        } else if events & (1 << 30) != 0 {
            "O"
        } else {
            "L"
        };
        let _ = name;
        rows.push((
            (a, b, c),
            format!("{}.{}.{}/{}{}/{}", a, b, c, (events & 1 != 0) as u8, (events & 4 != 0) as u8, mode),
        ));
    }
    rows.sort();
    let mut out = String::from("ep");
    for (_, r) in rows {
        out.push(' ');
        out.push_str(&r);
    }
    out
}

fn run_case(lines: &[String], out: &mut impl Write, tick_ms: u64) {
    let log: Log = Rc::new(RefCell::new(Vec::new()));
    let mut el: EventLoop<'static, ()> = EventLoop::try_new().unwrap();
    let w = Rc::new(World {
        handle_cell: RefCell::new(Some(el.handle())),
        log: log.clone(),
        t0: Instant::now() + Duration::from_millis(1),
        tick: Duration::from_millis(tick_ms),
        now_tick: Cell::new(0),
        srcs: Default::default(),
        custom_fds: Default::default(),
        pings: Default::default(),
        senders: Default::default(),
        tokens: Default::default(),
        scripts: Default::default(),
        invocations: Default::default(),
        fds: Default::default(),
        idles: Default::default(),
        idle_scripts: Default::default(),
        plans: Default::default(),
        disps: Default::default(),
        created: Default::default(),
        epfd: el.as_raw_fd(),
    });
    let mut straddle = false;
    let flush = |out: &mut dyn Write| {
        for l in log.borrow_mut().drain(..) {
            writeln!(out, "{}", l).unwrap();
        }
    };
    // logical time 0 is the middle of tick window 0
    {
        let target = w.t0 + w.tick / 2;
        let now = Instant::now();
        if target > now {
            std::thread::sleep(target - now);
        }
    }
    log.borrow_mut().clear();
    for line in lines {
        let line = line.trim();
        let t: Vec<&str> = line.split_whitespace().collect();
        if t[0] == "script" || t[0] == "idlescript" || t[0] == "dispatch" {
            say(&w, format!("> {}", line));
        }
        let res = catch_unwind(AssertUnwindSafe(|| match t[0] {
            "script" => {
                // script K N|* : body
                let k: usize = t[1].parse().unwrap();
                let n: usize = if t[2] == "*" { 0 } else { t[2].parse().unwrap() };
                let body = line.splitn(2, ':').nth(1).unwrap_or("");
                w.scripts.borrow_mut().insert((k, n), parse_script(body));
            }
            "idlescript" => {
                let i: usize = t[1].parse().unwrap();
                let body = line.splitn(2, ':').nth(1).unwrap_or("");
                w.idle_scripts.borrow_mut().insert(i, parse_script(body));
            }
            "dispatch" => {
                say(&w, "dispatch begin".into());
                let before = Instant::now();
                let r = el.dispatch(Some(Duration::ZERO), &mut ());
                let after = Instant::now();
                // both instants must lie strictly inside the current tick window
                let lo = w.t0 + w.tick * (w.now_tick.get() as u32);
                let hi = lo + w.tick;
                if before <= lo + w.tick / 8 || after >= hi - w.tick / 8 {
                    straddle = true;
                }
                match r {
                    Ok(()) => say(&w, "dispatch end ok".into()),
                    Err(e) => say(&w, format!("dispatch end err {}", err_class(&e))),
                }
            }
            "blockon" => {
                // EventLoop::block_on of a future that is ready at its N-th poll and wakes itself at every earlier one:
                // N-1 turns of (events, idles).  An error ends block_on; it is called again for the turns that are left.
                let n: usize = t[1].parse().unwrap_or(2);
                let mut remaining = std::cmp::max(1, n.saturating_sub(1));
                let before = Instant::now();
                while remaining > 0 {
                    struct Fut {
                        left: usize,
                        w: Rc<World>,
                    }
                    impl std::future::Future for Fut {
                        type Output = ();
                        fn poll(mut self: std::pin::Pin<&mut Self>, cx: &mut std::task::Context<'_>) -> std::task::Poll<()> {
                            if self.left == 0 {
                                return std::task::Poll::Ready(());
                            }
                            self.left -= 1;
                            say(&self.w, "> dispatch".into());
                            say(&self.w, "dispatch begin".into());
                            cx.waker().wake_by_ref();
                            std::task::Poll::Pending
                        }
                    }
                    let done = Rc::new(Cell::new(0usize));
                    let d2 = done.clone();
                    let w2 = w.clone();
                    let r = el.block_on(Fut { left: remaining, w: w.clone() }, &mut (), move |_| {
                        say(&w2, "dispatch end ok".into());
                        d2.set(d2.get() + 1);
                    });
                    match r {
                        Ok(_) => remaining = 0,
                        Err(e) => {
                            say(&w, format!("dispatch end err {}", err_class(&e)));
                            remaining = remaining.saturating_sub(done.get() + 1);
                        }
                    }
                }
                let after = Instant::now();
                let lo = w.t0 + w.tick * (w.now_tick.get() as u32);
                let hi = lo + w.tick;
                if before <= lo + w.tick / 8 || after >= hi - w.tick / 8 {
                    straddle = true;
                }
            }
            _ => exec_op(&w, line, false),
        }));
        if let Err(p) = res {
            let msg = p
                .downcast_ref::<String>()
                .cloned()
                .or_else(|| p.downcast_ref::<&str>().map(|s| s.to_string()))
                .unwrap_or_default();
            let class = if msg.contains("already borrowed") || msg.contains("already mutably borrowed") {
                "Borrow"
            } else if msg.contains("unreachable") {
                "Unreachable"
            } else if msg.contains("sub-ids") {
                "SubIdOverflow"
            } else {
                "other"
            };
            say(&w, format!("panic {}", class));
            flush(out);
            writeln!(out, "abort").unwrap();
            // the loop may be in an inconsistent state: leak it rather than run destructors
            std::mem::forget(el);
            std::mem::forget(w);
            return;
        }
        if t[0] != "script" && t[0] != "idlescript" {
            let st = stats_line(&w, &el);
            say(&w, st);
            let ep = epoll_line(&w);
            say(&w, ep);
        }
        flush(out);
    }
    // end of case: drop the loop first, then the world (handles, dispatchers, senders)
    writeln!(out, "end").unwrap();
    let weak_log = log.clone();
    // the harness gives up its own strong handle first: what remains alive is what the loop owns
    w.handle_cell.borrow_mut().take();
    drop(el);
    for l in weak_log.borrow_mut().drain(..) {
        writeln!(out, "{}", l).unwrap();
    }
    writeln!(out, "loopdropped").unwrap();
    // kept dispatchers and idle handles refer back to the world through their callbacks
    let d = std::mem::take(&mut *w.disps.borrow_mut());
    drop(d);
    let i = std::mem::take(&mut *w.idles.borrow_mut());
    drop(i);
    let o = std::mem::take(&mut *w.srcs.borrow_mut());
    drop(o);
    match Rc::try_unwrap(w) {
        Ok(world) => drop(world),
        Err(_) => writeln!(out, "world-still-referenced").unwrap(),
    }
    // objects the harness itself still held (never inserted, kept dispatchers): order is that of a hash map
    let mut rest: Vec<String> = weak_log.borrow_mut().drain(..).collect();
    rest.sort();
    for l in rest {
        writeln!(out, "{}", l).unwrap();
    }
    // logical time only matters to histories with timers
    if straddle && lines.iter().any(|l| l.contains("timer")) {
        writeln!(out, "timing-inconclusive").unwrap();
    }
}

pub fn run(args: &[String]) -> i32 {
    std::panic::set_hook(Box::new(|_| {}));
    let tick_ms: u64 = args.first().and_then(|s| s.parse().ok()).unwrap_or(4);
    let stdin = std::io::stdin();
    let out = std::io::stdout();
    let mut out = std::io::BufWriter::new(out.lock());
    let mut cur: Option<Vec<String>> = None;
    for line in stdin.lock().lines() {
        let line = line.unwrap();
        let l = line.trim();
        if l.is_empty() || l.starts_with('#') {
            continue;
        }
        if l.starts_with("case") {
            writeln!(out, "{}", l).unwrap();
            cur = Some(Vec::new());
        } else if l == "end" {
            if let Some(lines) = cur.take() {
                run_case(&lines, &mut out, tick_ms);
            }
        } else if let Some(c) = cur.as_mut() {
            c.push(l.to_string());
        }
    }
    0
}
