//! C10: the real `Executor` / `Scheduler` under controlled schedules (see sched.rs).  Futures are manual:
//! each poll counts, stores its waker, and completes iff its `complete` flag has been set.
use crate::sched::{epoll_user_fds, eventfd_count, Sched, StepResult};
use calloop::futures::executor;
use calloop::EventLoop;
use std::future::Future;
use std::io::{BufRead, Write};
use std::os::unix::io::AsRawFd;
use std::pin::Pin;
use std::sync::atomic::{AtomicBool, AtomicI32, AtomicUsize, Ordering};
use std::sync::{Arc, Mutex};
use std::task::{Context, Poll, Waker};
use std::time::Duration;

struct Shared {
    polls: Vec<AtomicUsize>,
    complete: Vec<AtomicBool>,
    wakers: Vec<Mutex<Option<Waker>>>,
    delivered: Mutex<Vec<usize>>,
    poll_threads_ok: AtomicBool,
    epfd: AtomicI32,
    fd: AtomicI32,
}

struct MFut {
    id: usize,
    sh: Arc<Shared>,
    loop_thread: std::thread::ThreadId,
}

impl Future for MFut {
    type Output = usize;
    fn poll(self: Pin<&mut Self>, cx: &mut Context<'_>) -> Poll<usize> {
        if std::thread::current().id() != self.loop_thread {
            self.sh.poll_threads_ok.store(false, Ordering::SeqCst);
        }
        self.sh.polls[self.id].fetch_add(1, Ordering::SeqCst);
        *self.sh.wakers[self.id].lock().unwrap() = Some(cx.waker().clone());
        if self.sh.complete[self.id].load(Ordering::SeqCst) {
            Poll::Ready(self.id)
        } else {
            Poll::Pending
        }
    }
}

impl Drop for MFut {
    fn drop(&mut self) {
        if std::thread::current().id() != self.loop_thread {
            self.sh.poll_threads_ok.store(false, Ordering::SeqCst);
        }
    }
}

fn run_case(name: &str, ntasks: usize, loop_ops: Vec<String>, progs: Vec<Vec<String>>, schedule: Vec<usize>, out: &mut impl Write) {
    writeln!(out, "case {}", name).unwrap();
    let n = progs.len();
    let sched = Sched::global();
    sched.reset(n + 1);
    let shared = Arc::new(Shared {
        polls: (0..ntasks).map(|_| AtomicUsize::new(0)).collect(),
        complete: (0..ntasks).map(|_| AtomicBool::new(false)).collect(),
        wakers: (0..ntasks).map(|_| Mutex::new(None)).collect(),
        delivered: Mutex::new(Vec::new()),
        poll_threads_ok: AtomicBool::new(true),
        epfd: AtomicI32::new(-1),
        fd: AtomicI32::new(-1),
    });
    let mut joins = Vec::new();
    {
        let sh = shared.clone();
        joins.push(sched.spawn(0, move || {
            let mut el: EventLoop<'static, ()> = EventLoop::try_new().unwrap();
            let (exec, scheduler) = executor::<usize>().unwrap();
            let sh2 = sh.clone();
            el.handle()
                .insert_source(exec, move |r, _, _| {
                    sh2.delivered.lock().unwrap().push(r);
                })
                .map_err(|e| e.error)
                .unwrap();
            let epfd = el.as_raw_fd();
            sh.epfd.store(epfd, Ordering::SeqCst);
            sh.fd.store(epoll_user_fds(epfd).first().copied().unwrap_or(-1), Ordering::SeqCst);
            calloop::verif::yield_point("loop.ready");
            let me = std::thread::current().id();
            for op in &loop_ops {
                let w: Vec<&str> = op.split_whitespace().collect();
                match w[0] {
                    "dispatch" => el.dispatch(Some(Duration::ZERO), &mut ()).unwrap(),
                    "schedule" => {
                        let id: usize = w[1].parse().unwrap();
                        scheduler
                            .schedule(MFut {
                                id,
                                sh: sh.clone(),
                                loop_thread: me,
                            })
                            .unwrap();
                    }
                    _ => {}
                }
            }
            calloop::verif::yield_point("loop.end");
        }));
    }
    for (i, prog) in progs.into_iter().enumerate() {
        let sh = shared.clone();
        joins.push(sched.spawn(i + 1, move || {
            for op in &prog {
                let w: Vec<&str> = op.split_whitespace().collect();
                let t: usize = w[1].parse().unwrap();
                match w[0] {
                    "wake" => {
                        let wk = sh.wakers[t].lock().unwrap().clone();
                        if let Some(wk) = wk {
                            wk.wake_by_ref();
                        }
                    }
                    "complete" => sh.complete[t].store(true, Ordering::SeqCst),
                    _ => {}
                }
            }
        }));
    }
    for t in 0..=n {
        sched.wait_parked(t);
    }
    let r = sched.step(0);
    assert_eq!(r, StepResult::At("loop.ready"));
    let snapshot = |sh: &Shared| -> String {
        format!(
            "counter={} polls=[{}] delivered=[{}] loopthread={}",
            eventfd_count(sh.fd.load(Ordering::SeqCst)),
            sh.polls.iter().map(|p| p.load(Ordering::SeqCst).to_string()).collect::<Vec<_>>().join(","),
            sh.delivered.lock().unwrap().iter().map(|x| x.to_string()).collect::<Vec<_>>().join(","),
            sh.poll_threads_ok.load(Ordering::SeqCst) as u8
        )
    };
    let mut loop_ended = false;
    for &t in &schedule {
        let r = if t > n || (t == 0 && loop_ended) { StepResult::Skip } else { sched.step(t) };
        let r = if r == StepResult::At("loop.end") {
            loop_ended = true;
            StepResult::Done
        } else {
            r
        };
        let label = match r {
            StepResult::At(l) => l.to_string(),
            StepResult::Done => "done".into(),
            StepResult::Blocked => "blocked".into(),
            StepResult::Skip => "skip".into(),
            StepResult::Panicked => "panic".into(),
        };
        writeln!(out, "step {} {} {}", t, label, snapshot(&shared)).unwrap();
    }
    for t in (1..=n).chain(std::iter::once(0)) {
        for _ in 0..100000 {
            match sched.step(t) {
                StepResult::Done | StepResult::Skip | StepResult::Panicked => break,
                _ => {}
            }
        }
    }
    writeln!(out, "final loopthread={}", shared.poll_threads_ok.load(Ordering::SeqCst) as u8).unwrap();
    for j in joins {
        let _ = j.join();
    }
}

pub fn run() -> i32 {
    let stdin = std::io::stdin();
    let out = std::io::stdout();
    let mut out = std::io::BufWriter::new(out.lock());
    let mut name = String::new();
    let mut ntasks = 0usize;
    let mut loop_ops: Vec<String> = Vec::new();
    let mut progs: Vec<Vec<String>> = Vec::new();
    let mut schedule: Vec<usize> = Vec::new();
    let parse_prog = |s: &str| -> Vec<String> { s.split(';').map(|x| x.trim().to_string()).filter(|x| !x.is_empty()).collect() };
    for line in stdin.lock().lines() {
        let line = line.unwrap();
        let l = line.trim();
        if l.is_empty() || l.starts_with('#') {
            continue;
        }
        let w: Vec<&str> = l.split_whitespace().collect();
        match w[0] {
            "case" => {
                name = w.get(1).unwrap_or(&"").to_string();
                ntasks = 0;
                loop_ops.clear();
                progs.clear();
                schedule.clear();
            }
            "tasks" => ntasks = w[1].parse().unwrap(),
            "threads" => progs = vec![Vec::new(); w[1].parse().unwrap()],
            "loop:" => loop_ops = parse_prog(l.splitn(2, ':').nth(1).unwrap_or("")),
            "thread" => {
                let i: usize = w[1].trim_end_matches(':').parse().unwrap();
                let body = l.splitn(2, ':').nth(1).unwrap_or("");
                if i >= 1 && i <= progs.len() {
                    progs[i - 1] = parse_prog(body);
                }
            }
            "sched" => schedule = w[1..].iter().filter_map(|x| x.parse().ok()).collect(),
            "end" => run_case(&name, ntasks, loop_ops.clone(), progs.clone(), schedule.clone(), &mut out),
            _ => {}
        }
    }
    0
}

// ---- `vh execcb`: scheduling from inside the executor's own callback; `stream N`: a StreamSource with N items ready ----

struct ReadyFut(usize);
impl Future for ReadyFut {
    type Output = usize;
    fn poll(self: Pin<&mut Self>, _: &mut Context<'_>) -> Poll<usize> {
        Poll::Ready(self.0)
    }
}

/// a stream whose items are all ready at once: `left` items, then the end
struct ReadyStream {
    next: usize,
    total: usize,
}
impl futures_core::Stream for ReadyStream {
    type Item = usize;
    fn poll_next(mut self: Pin<&mut Self>, _: &mut Context<'_>) -> Poll<Option<usize>> {
        if self.next < self.total {
            self.next += 1;
            Poll::Ready(Some(self.next - 1))
        } else {
            Poll::Ready(None)
        }
    }
}

pub fn run_cb() -> i32 {
    use std::cell::RefCell;
    use std::rc::Rc;
    let stdin = std::io::stdin();
    let out = std::io::stdout();
    let mut out = std::io::BufWriter::new(out.lock());
    std::panic::set_hook(Box::new(|_| {}));
    for line in stdin.lock().lines() {
        let line = line.unwrap();
        let w: Vec<&str> = line.split_whitespace().collect();
        if w.is_empty() {
            continue;
        }
        match w[0] {
            // chain N: task 0 is scheduled from outside; the executor's callback schedules task r+1 when r is delivered
            "chain" => {
                let n: usize = w[1].parse().unwrap();
                let res = std::panic::catch_unwind(|| {
                    let mut el: EventLoop<'static, ()> = EventLoop::try_new().unwrap();
                    let (exec, scheduler) = executor::<usize>().unwrap();
                    let delivered = Rc::new(RefCell::new(Vec::new()));
                    let d2 = delivered.clone();
                    let s2 = scheduler.clone();
                    el.handle()
                        .insert_source(exec, move |r, _, _| {
                            d2.borrow_mut().push(r);
                            if r < n {
                                s2.schedule(ReadyFut(r + 1)).unwrap();
                            }
                        })
                        .map_err(|e| e.error)
                        .unwrap();
                    scheduler.schedule(ReadyFut(0)).unwrap();
                    for _ in 0..(n + 3) {
                        el.dispatch(Some(Duration::ZERO), &mut ()).unwrap();
                    }
                    let v = delivered.borrow().clone();
                    v
                });
                match res {
                    Ok(v) => writeln!(out, "chain {} delivered=[{}] panicked=0", n, v.iter().map(|x| x.to_string()).collect::<Vec<_>>().join(",")).unwrap(),
                    Err(_) => writeln!(out, "chain {} delivered=[] panicked=1", n).unwrap(),
                }
            }
            // yield N: task 0 wakes itself N times from inside its own poll (yield_now) before it completes; once it has
            // been delivered task 1 is scheduled from outside: both must be delivered
            "yield" => {
                let n: usize = w[1].parse().unwrap();
                struct YieldFut(usize);
                impl Future for YieldFut {
                    type Output = usize;
                    fn poll(mut self: Pin<&mut Self>, cx: &mut Context<'_>) -> Poll<usize> {
                        if self.0 == 0 {
                            return Poll::Ready(0);
                        }
                        self.0 -= 1;
                        cx.waker().wake_by_ref();
                        Poll::Pending
                    }
                }
                let mut el: EventLoop<'static, ()> = EventLoop::try_new().unwrap();
                let (exec, scheduler) = executor::<usize>().unwrap();
                let delivered = Rc::new(RefCell::new(Vec::new()));
                let d2 = delivered.clone();
                el.handle().insert_source(exec, move |r, _, _| d2.borrow_mut().push(r)).map_err(|e| e.error).unwrap();
                scheduler.schedule(YieldFut(n)).unwrap();
                let mut second = false;
                for _ in 0..(2 * n + 8) {
                    el.dispatch(Some(Duration::ZERO), &mut ()).unwrap();
                    if !second && delivered.borrow().contains(&0) {
                        scheduler.schedule(ReadyFut(1)).unwrap();
                        second = true;
                    }
                }
                let v = delivered.borrow().clone();
                writeln!(out, "yield {} delivered=[{}]", n, v.iter().map(|x| x.to_string()).collect::<Vec<_>>().join(",")).unwrap();
            }
            // stream N D: a StreamSource over a stream with N items ready at once, D dispatches: how many items came, in
            // order?, how many `None`s, is the source still in the loop
            // slab OPS…: sI = schedule task I, cI = complete task I and wake it, wI = wake it, d = dispatch.  Tasks are
            // manual futures (Ready(I) once their flag is set; store their waker otherwise).  What is delivered, in order?
            "slab" => {
                use std::sync::atomic::{AtomicBool, Ordering};
                use std::sync::{Arc, Mutex};
                struct Manual {
                    id: usize,
                    flag: Arc<AtomicBool>,
                    waker: Arc<Mutex<Option<std::task::Waker>>>,
                    dropped: Arc<AtomicBool>,
                }
                impl Drop for Manual {
                    fn drop(&mut self) {
                        self.dropped.store(true, Ordering::SeqCst);
                    }
                }
                impl Future for Manual {
                    type Output = usize;
                    fn poll(self: Pin<&mut Self>, cx: &mut Context<'_>) -> Poll<usize> {
                        if self.flag.load(Ordering::SeqCst) {
                            Poll::Ready(self.id)
                        } else {
                            *self.waker.lock().unwrap() = Some(cx.waker().clone());
                            Poll::Pending
                        }
                    }
                }
                let ops: Vec<String> = w[1..].iter().map(|s| s.to_string()).collect();
                let res = std::panic::catch_unwind(move || {
                    let mut el: EventLoop<'static, ()> = EventLoop::try_new().unwrap();
                    let (exec, scheduler) = executor::<usize>().unwrap();
                    let delivered = Rc::new(RefCell::new(Vec::new()));
                    let d2 = delivered.clone();
                    let tok = el.handle().insert_source(exec, move |r, _, _| d2.borrow_mut().push(r)).map_err(|e| e.error).unwrap();
                    let mut scheduler = Some(scheduler);
                    let mut dropped: Vec<Arc<AtomicBool>> = Vec::new();
                    let mut flags: Vec<Arc<AtomicBool>> = Vec::new();
                    let mut wakers: Vec<Arc<Mutex<Option<std::task::Waker>>>> = Vec::new();
                    for _ in 0..64 {
                        flags.push(Arc::new(AtomicBool::new(false)));
                        wakers.push(Arc::new(Mutex::new(None)));
                        dropped.push(Arc::new(AtomicBool::new(false)));
                    }
                    for op in &ops {
                        let (c, i) = (op.as_bytes()[0], op[1..].parse::<usize>().unwrap_or(0));
                        match c {
                            b's' => {
                                if let Some(s) = scheduler.as_ref() {
                                    s.schedule(Manual { id: i, flag: flags[i].clone(), waker: wakers[i].clone(), dropped: dropped[i].clone() }).unwrap()
                                }
                            }
                            // x: the executor is removed from the loop and dropped (the wakers stored outside stay alive)
                            b'x' => {
                                el.handle().remove(tok);
                                scheduler = None;
                            }
                            b'c' => {
                                flags[i].store(true, Ordering::SeqCst);
                                let wk = wakers[i].lock().unwrap().clone();
                                if let Some(wk) = wk {
                                    wk.wake();
                                }
                            }
                            b'w' => {
                                let wk = wakers[i].lock().unwrap().clone();
                                if let Some(wk) = wk {
                                    wk.wake();
                                }
                            }
                            _ => el.dispatch(Some(Duration::ZERO), &mut ()).unwrap(),
                        }
                    }
                    let v = delivered.borrow().clone();
                    let gone: Vec<usize> = (0..64).filter(|i| dropped[*i].load(Ordering::SeqCst)).collect();
                    (v, gone)
                });
                let list = |v: &Vec<usize>| v.iter().map(|x| x.to_string()).collect::<Vec<_>>().join(",");
                match res {
                    Ok((v, gone)) => writeln!(out, "slab delivered=[{}] dropped=[{}] panicked=0", list(&v), list(&gone)).unwrap(),
                    Err(_) => writeln!(out, "slab delivered=[] dropped=[] panicked=1").unwrap(),
                }
            }
            "stream" => {
                let n: usize = w[1].parse().unwrap();
                let nd: usize = w[2].parse().unwrap();
                let mut el: EventLoop<'static, ()> = EventLoop::try_new().unwrap();
                let src = calloop::stream::StreamSource::new(ReadyStream { next: 0, total: n }).unwrap();
                let got = Rc::new(RefCell::new((0usize, true, 0usize)));
                let g2 = got.clone();
                let token = el
                    .handle()
                    .insert_source(src, move |item, _, _| {
                        let mut g = g2.borrow_mut();
                        match item {
                            Some(v) => {
                                if v != g.0 {
                                    g.1 = false;
                                }
                                g.0 += 1;
                            }
                            None => g.2 += 1,
                        }
                    })
                    .map_err(|e| e.error)
                    .unwrap();
                for _ in 0..nd {
                    el.dispatch(Some(Duration::ZERO), &mut ()).unwrap();
                }
                let gone = el.handle().update(&token).is_err();
                let g = got.borrow();
                writeln!(out, "stream {} items={} inorder={} nones={} gone={}", n, g.0, g.1 as u8, g.2, gone as u8).unwrap();
            }
            _ => {}
        }
    }
    0
}
