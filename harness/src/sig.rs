//! C19: the real `Signals` source in a single-threaded process: counting `sigaction` handlers on the
//! signals used, `pthread_sigmask` queried after every operation, `kill(self)` to raise.
use calloop::signals::{Signal, Signals};
use calloop::{Dispatcher, EventLoop};
use nix::sys::signal::{self as nsig, SaFlags, SigAction, SigHandler, SigSet};
use std::cell::RefCell;
use std::io::{BufRead, Write};
use std::rc::Rc;
use std::sync::atomic::{AtomicUsize, Ordering};
use std::time::Duration;

const SIGS: [i32; 5] = [10, 12, 28, 29, 17]; // USR1, USR2, WINCH, IO, CHLD
static HANDLED: [AtomicUsize; 5] =
    [AtomicUsize::new(0), AtomicUsize::new(0), AtomicUsize::new(0), AtomicUsize::new(0), AtomicUsize::new(0)];

extern "C" fn on_signal(sig: i32) {
    for (i, s) in SIGS.iter().enumerate() {
        if *s == sig {
            HANDLED[i].fetch_add(1, Ordering::SeqCst);
        }
    }
}

fn to_signal(n: i32) -> Option<Signal> {
    match n {
        10 => Some(Signal::SIGUSR1),
        12 => Some(Signal::SIGUSR2),
        28 => Some(Signal::SIGWINCH),
        29 => Some(Signal::SIGIO),
        17 => Some(Signal::SIGCHLD),
        _ => None,
    }
}

fn nix_signal(n: i32) -> nsig::Signal {
    nsig::Signal::try_from(n).unwrap()
}

const FOREIGN: i32 = 23; // SIGURG: blocked by "the application", never given to the source

fn blocked_list() -> String {
    let m = SigSet::thread_get_mask().unwrap();
    SIGS.iter().chain(std::iter::once(&FOREIGN)).filter(|s| m.contains(nix_signal(**s))).map(|s| s.to_string()).collect::<Vec<_>>().join(",")
}

fn reset_process_state() {
    let mut all = SigSet::empty();
    for s in SIGS {
        all.add(nix_signal(s));
    }
    all.add(nix_signal(FOREIGN));
    // whatever is still pending goes to the counting handlers now
    all.thread_unblock().unwrap();
    for h in &HANDLED {
        h.store(0, Ordering::SeqCst);
    }
}

fn run_case(ops: &[String], out: &mut impl Write) {
    reset_process_state();
    let mut el: EventLoop<'static, ()> = EventLoop::try_new().unwrap();
    let reported: Rc<RefCell<Vec<i32>>> = Rc::new(RefCell::new(Vec::new()));
    let mut src: Option<(Dispatcher<'static, Signals, ()>, calloop::RegistrationToken)> = None;
    for op in ops {
        let w: Vec<&str> = op.split_whitespace().collect();
        let sigs: Vec<Signal> = w[1..].iter().filter_map(|x| x.parse::<i32>().ok()).filter_map(to_signal).collect();
        match w[0] {
            "new" => {
                if src.is_none() {
                    let s = Signals::new(&sigs).unwrap();
                    let rep = reported.clone();
                    let d = Dispatcher::new(s, move |ev: calloop::signals::Event, _: &mut (), _: &mut ()| {
                        rep.borrow_mut().push(ev.signal() as i32);
                    });
                    let t = el.handle().register_dispatcher(d.clone()).unwrap();
                    src = Some((d, t));
                }
            }
            "add" => {
                if let Some((d, _)) = &src {
                    d.as_source_mut().add_signals(&sigs).unwrap();
                }
            }
            "remove" => {
                if let Some((d, _)) = &src {
                    d.as_source_mut().remove_signals(&sigs).unwrap();
                }
            }
            "set" => {
                if let Some((d, _)) = &src {
                    d.as_source_mut().set_signals(&sigs).unwrap();
                }
            }
            "drop" => {
                if let Some((d, t)) = src.take() {
                    el.handle().remove(t);
                    drop(d);
                }
            }
            "raise" => {
                let n: i32 = w[1].parse().unwrap();
                nsig::kill(nix::unistd::Pid::this(), nix_signal(n)).unwrap();
            }
            // thread-directed (`raise()` = pthread_kill(self)): a pending queue of its own, next to the process-wide one
            "raiset" => {
                let n: i32 = w[1].parse().unwrap();
                nsig::raise(nix_signal(n)).unwrap();
            }
            "dispatch" => {
                el.dispatch(Some(Duration::ZERO), &mut ()).unwrap();
            }
            "appblock" => {
                let mut m = SigSet::empty();
                m.add(nix_signal(FOREIGN));
                m.thread_block().unwrap();
            }
            _ => {}
        }
        writeln!(
            out,
            "op {} -> blocked=[{}] handled=[{}] reported=[{}]",
            op,
            blocked_list(),
            HANDLED.iter().map(|h| h.load(Ordering::SeqCst).to_string()).collect::<Vec<_>>().join(","),
            reported.borrow().iter().map(|s| s.to_string()).collect::<Vec<_>>().join(",")
        )
        .unwrap();
    }
    drop(src);
    drop(el);
    writeln!(out, "end blocked=[{}]", blocked_list()).unwrap();
}

pub fn run() -> i32 {
    for s in SIGS {
        let act = SigAction::new(SigHandler::Handler(on_signal), SaFlags::empty(), SigSet::empty());
        unsafe { nsig::sigaction(nix_signal(s), &act).unwrap() };
    }
    let stdin = std::io::stdin();
    let out = std::io::stdout();
    let mut out = std::io::BufWriter::new(out.lock());
    let mut ops: Vec<String> = Vec::new();
    for line in stdin.lock().lines() {
        let line = line.unwrap();
        let l = line.trim();
        if l.is_empty() || l.starts_with('#') {
            continue;
        }
        if l.starts_with("case") {
            writeln!(out, "{}", l).unwrap();
            ops.clear();
        } else if l == "end" {
            run_case(&ops, &mut out);
        } else {
            ops.push(l.to_string());
        }
    }
    0
}
