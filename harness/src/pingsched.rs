//! C03: real `Ping` / `PingSource` under controlled schedules (see sched.rs).
use crate::sched::{eventfd_count, epoll_user_fds, Sched, StepResult};
use calloop::ping::{make_ping, Ping};
use calloop::EventLoop;
use std::io::{BufRead, Write};
use std::os::unix::io::AsRawFd;
use std::sync::atomic::{AtomicI32, AtomicUsize, Ordering};
use std::sync::Arc;
use std::time::Duration;

struct Shared {
    cbs: AtomicUsize,
    epfd: AtomicI32,
    pingfd: AtomicI32,
}

fn run_case(name: &str, npingers: usize, progs: Vec<Vec<String>>, loop_ops: Vec<String>, schedule: Vec<usize>, out: &mut impl Write) {
    writeln!(out, "case {}", name).unwrap();
    let sched = Sched::global();
    sched.reset(npingers + 1);
    let shared = Arc::new(Shared {
        cbs: AtomicUsize::new(0),
        epfd: AtomicI32::new(-1),
        pingfd: AtomicI32::new(-1),
    });
    let (ping, source) = make_ping().unwrap();
    let mut joins = Vec::new();
    // loop thread = 0
    {
        let sh = shared.clone();
        joins.push(sched.spawn(0, move || {
            let mut el: EventLoop<'static, ()> = EventLoop::try_new().unwrap();
            let sh2 = sh.clone();
            el.handle()
                .insert_source(source, move |(), _, _| {
                    sh2.cbs.fetch_add(1, Ordering::SeqCst);
                    // other threads may ping while the callback runs
                    calloop::verif::yield_point("ping.cb");
                })
                .map_err(|e| e.error)
                .unwrap();
            let epfd = el.as_raw_fd();
            sh.epfd.store(epfd, Ordering::SeqCst);
            sh.pingfd.store(epoll_user_fds(epfd).first().copied().unwrap_or(-1), Ordering::SeqCst);
            calloop::verif::yield_point("loop.ready");
            for op in &loop_ops {
                if op == "dispatch" {
                    el.dispatch(Some(Duration::ZERO), &mut ()).unwrap();
                }
            }
            // the loop object outlives the schedule: it is only dropped when the case is over
            calloop::verif::yield_point("loop.end");
        }));
    }
    // handles a program leaves undropped are parked here and released only after the case is over
    let leftovers: Arc<std::sync::Mutex<Vec<Ping>>> = Arc::new(std::sync::Mutex::new(Vec::new()));
    for (i, prog) in progs.into_iter().enumerate() {
        let mut handles = vec![ping.clone()];
        let leftovers = leftovers.clone();
        joins.push(sched.spawn(i + 1, move || {
            for op in &prog {
                match op.as_str() {
                    "ping" => {
                        if let Some(h) = handles.last() {
                            h.ping();
                            calloop::verif::yield_point("ping.returned");
                        }
                    }
                    "clone" => {
                        if let Some(h) = handles.last().cloned() {
                            handles.push(h)
                        }
                    }
                    "drop" => {
                        let h = handles.pop();
                        drop(h);
                    }
                    _ => {}
                }
            }
            // whatever the program left stays alive for the rest of the case (the model's program makes every
            // drop explicit); it is released after the loop is gone, so no descriptor leaks across cases
            leftovers.lock().unwrap().extend(handles);
        }));
    }
    drop(ping); // the pinger threads hold the only handle instances
    for t in 0..=npingers {
        sched.wait_parked(t);
    }
    // bring the loop thread to "loop.ready" (setup done) before the schedule starts
    let r = sched.step(0);
    assert_eq!(r, StepResult::At("loop.ready"));
    let snapshot = |sh: &Shared| -> String {
        let pfd = sh.pingfd.load(Ordering::SeqCst);
        let epfd = sh.epfd.load(Ordering::SeqCst);
        let reg = epoll_user_fds(epfd).contains(&pfd) as u8;
        format!("counter={} cbs={} reg={}", eventfd_count(pfd), sh.cbs.load(Ordering::SeqCst), reg)
    };
    let mut loop_ended = false;
    for &t in &schedule {
        let r = if t > npingers || (t == 0 && loop_ended) {
            StepResult::Skip
        } else {
            sched.step(t)
        };
        let r = if r == StepResult::At("loop.end") {
            loop_ended = true;
            StepResult::Done
        } else {
            r
        };
        let label = match r {
            StepResult::At(l) => l.to_string(),
            StepResult::Done => "done".into(),
            StepResult::Blocked => "blocked".into(),
            StepResult::Skip => "skip".into(),
            StepResult::Panicked => "panic".into(),
        };
        writeln!(out, "step {} {} {}", t, label, snapshot(&shared)).unwrap();
    }
    // let every thread run to its end: pingers in order, then the loop
    for t in (1..=npingers).chain(std::iter::once(0)) {
        loop {
            match sched.step(t) {
                StepResult::Done | StepResult::Skip | StepResult::Panicked => break,
                _ => {}
            }
        }
    }
    writeln!(out, "final cbs={}", shared.cbs.load(Ordering::SeqCst)).unwrap();
    for j in joins {
        let _ = j.join();
    }
    drop(leftovers);
}

/// Uncontrolled runs: `threads` threads, each holding one handle, run their programs at the same moment (spin
/// barrier), `rounds` times over; afterwards the loop dispatches until nothing happens any more.  One line per round:
/// how many callbacks ran, whether the source has left the loop.
fn run_race(name: &str, progs: Vec<Vec<String>>, rounds: usize, out: &mut impl Write) {
    writeln!(out, "case {}", name).unwrap();
    let n = progs.len();
    for round in 0..rounds {
        let (ping, source) = make_ping().unwrap();
        let mut el: EventLoop<'static, ()> = EventLoop::try_new().unwrap();
        let cbs = Arc::new(AtomicUsize::new(0));
        let c2 = cbs.clone();
        let token = el
            .handle()
            .insert_source(source, move |(), _, _| {
                c2.fetch_add(1, Ordering::SeqCst);
            })
            .map_err(|e| e.error)
            .unwrap();
        let gate = Arc::new(AtomicUsize::new(0));
        let mut joins = Vec::new();
        for prog in progs.iter().cloned() {
            let mut handles = vec![ping.clone()];
            let gate = gate.clone();
            joins.push(std::thread::spawn(move || {
                gate.fetch_add(1, Ordering::SeqCst);
                while gate.load(Ordering::SeqCst) < n + 1 {
                    std::hint::spin_loop();
                }
                for op in &prog {
                    match op.as_str() {
                        "ping" => {
                            if let Some(h) = handles.last() {
                                h.ping()
                            }
                        }
                        "clone" => {
                            if let Some(h) = handles.last().cloned() {
                                handles.push(h)
                            }
                        }
                        "drop" => drop(handles.pop()),
                        _ => {}
                    }
                }
                handles
            }));
        }
        drop(ping);
        while gate.load(Ordering::SeqCst) < n {
            std::hint::spin_loop();
        }
        gate.fetch_add(1, Ordering::SeqCst); // go
        let leftovers: Vec<Vec<Ping>> = joins.into_iter().map(|j| j.join().unwrap()).collect();
        for _ in 0..4 {
            el.dispatch(Some(Duration::from_millis(2)), &mut ()).unwrap();
        }
        let gone = el.handle().update(&token).is_err();
        writeln!(
            out,
            "race {} cbs={} gone={} left={}",
            round,
            cbs.load(Ordering::SeqCst),
            gone as u8,
            leftovers.iter().map(|v| v.len()).sum::<usize>()
        )
        .unwrap();
        drop(leftovers);
    }
    writeln!(out, "final").unwrap();
}

pub fn run() -> i32 {
    let stdin = std::io::stdin();
    let out = std::io::stdout();
    let mut out = std::io::BufWriter::new(out.lock());
    let mut name = String::new();
    let mut n = 0usize;
    let mut progs: Vec<Vec<String>> = Vec::new();
    let mut loop_ops: Vec<String> = Vec::new();
    let mut schedule: Vec<usize> = Vec::new();
    let parse_prog = |s: &str| -> Vec<String> { s.split(';').map(|x| x.trim().to_string()).filter(|x| !x.is_empty()).collect() };
    for line in stdin.lock().lines() {
        let line = line.unwrap();
        let l = line.trim();
        if l.is_empty() || l.starts_with('#') {
            continue;
        }
        let w: Vec<&str> = l.split_whitespace().collect();
        match w[0] {
            "case" => {
                name = w.get(1).unwrap_or(&"").to_string();
                n = 0;
                progs.clear();
                loop_ops.clear();
                schedule.clear();
            }
            "pingers" => {
                n = w[1].parse().unwrap();
                progs = vec![Vec::new(); n];
            }
            "prog" => {
                let i: usize = w[1].trim_end_matches(':').parse().unwrap();
                let body = l.splitn(2, ':').nth(1).unwrap_or("");
                if i >= 1 && i <= n {
                    progs[i - 1] = parse_prog(body);
                }
            }
            "loop:" => {
                loop_ops = parse_prog(l.splitn(2, ':').nth(1).unwrap_or(""));
            }
            "sched" => schedule = w[1..].iter().filter_map(|x| x.parse().ok()).collect(),
            "race" => run_race(&name, progs.clone(), w[1].parse().unwrap(), &mut out),
            "end" => run_case(&name, n, progs.clone(), loop_ops.clone(), schedule.clone(), &mut out),
            _ => {}
        }
    }
    0
}
