//! C11: real `EventLoop::run` / `block_on` with `LoopSignal::stop / wakeup` and the block_on waker under
//! controlled schedules (see sched.rs).  The loop waits without a timeout; a thread blocked in the
//! poller is recognised through its kernel state.
use crate::sched::{Sched, StepResult};
use calloop::EventLoop;
use std::future::Future;
use std::io::{BufRead, Write};
use std::pin::Pin;
use std::sync::atomic::{AtomicBool, AtomicUsize, Ordering};
use std::sync::{Arc, Mutex};
use std::task::{Context, Poll, Waker};

struct Shared {
    iters: AtomicUsize,
    polls: AtomicUsize,
    complete: AtomicBool,
    self_wake: AtomicUsize,
    waker: Mutex<Option<Waker>>,
    result: Mutex<String>,
    signal: Mutex<Option<calloop::LoopSignal>>,
}

struct Fut(Arc<Shared>);

impl Future for Fut {
    type Output = u32;
    fn poll(self: Pin<&mut Self>, cx: &mut Context<'_>) -> Poll<u32> {
        self.0.polls.fetch_add(1, Ordering::SeqCst);
        *self.0.waker.lock().unwrap() = Some(cx.waker().clone());
        // a future of the `yield_now` kind wakes itself before returning Pending
        if self.0.self_wake.load(Ordering::SeqCst) > 0 {
            self.0.self_wake.fetch_sub(1, Ordering::SeqCst);
            cx.waker().wake_by_ref();
        }
        // other threads may run while the future is being polled
        calloop::verif::yield_point("fut.poll");
        if self.0.complete.load(Ordering::SeqCst) {
            Poll::Ready(7)
        } else {
            Poll::Pending
        }
    }
}

fn run_case(name: &str, block_on: bool, self_wake: usize, progs: Vec<Vec<String>>, schedule: Vec<usize>, out: &mut impl Write) {
    writeln!(out, "case {}", name).unwrap();
    let n = progs.len();
    let sched = Sched::global();
    sched.reset(n + 1);
    let shared = Arc::new(Shared {
        iters: AtomicUsize::new(0),
        polls: AtomicUsize::new(0),
        complete: AtomicBool::new(false),
        self_wake: AtomicUsize::new(self_wake),
        waker: Mutex::new(None),
        result: Mutex::new("none".into()),
        signal: Mutex::new(None),
    });
    let mut joins = Vec::new();
    {
        let sh = shared.clone();
        joins.push(sched.spawn(0, move || {
            let mut el: EventLoop<'static, ()> = EventLoop::try_new().unwrap();
            *sh.signal.lock().unwrap() = Some(el.get_signal());
            calloop::verif::yield_point("loop.ready");
            let sh2 = sh.clone();
            if block_on {
                let r = el.block_on(Fut(sh.clone()), &mut (), move |_| {
                    sh2.iters.fetch_add(1, Ordering::SeqCst);
                });
                *sh.result.lock().unwrap() = match r {
                    Ok(Some(_)) => "some".into(),
                    Ok(None) => "stopped".into(),
                    Err(_) => "err".into(),
                };
            } else {
                let r = el.run(None, &mut (), move |_| {
                    sh2.iters.fetch_add(1, Ordering::SeqCst);
                });
                *sh.result.lock().unwrap() = if r.is_ok() { "stopped".into() } else { "err".into() };
            }
        }));
    }
    for t in 0..=0 {
        sched.wait_parked(t);
    }
    let r = sched.step(0);
    assert_eq!(r, StepResult::At("loop.ready"));
    let signal = shared.signal.lock().unwrap().clone().unwrap();
    for (i, prog) in progs.into_iter().enumerate() {
        let sh = shared.clone();
        let sig = signal.clone();
        joins.push(sched.spawn(i + 1, move || {
            for op in &prog {
                match op.as_str() {
                    "stop" => sig.stop(),
                    "wakeup" => sig.wakeup(),
                    "complete" => sh.complete.store(true, Ordering::SeqCst),
                    "wake" => {
                        let w = sh.waker.lock().unwrap().clone();
                        if let Some(w) = w {
                            w.wake_by_ref();
                        }
                    }
                    _ => {}
                }
            }
        }));
    }
    for t in 1..=n {
        sched.wait_parked(t);
    }
    let snapshot = |sh: &Shared| -> String {
        format!(
            "iters={} polls={} result={}",
            sh.iters.load(Ordering::SeqCst),
            sh.polls.load(Ordering::SeqCst),
            sh.result.lock().unwrap()
        )
    };
    let mut blocked = vec![false; n + 1];
    for &t in &schedule {
        let r = if t > n { StepResult::Skip } else { sched.step(t) };
        if t <= n {
            blocked[t] = r == StepResult::Blocked;
        }
        for u in 0..=n {
            if u != t && blocked[u] {
                match sched.settle(u) {
                    StepResult::Blocked => {}
                    _ => blocked[u] = false,
                }
            }
        }
        let label = match r {
            StepResult::At(l) => l.to_string(),
            StepResult::Done => "done".into(),
            StepResult::Blocked => "blocked".into(),
            StepResult::Skip => "skip".into(),
            StepResult::Panicked => "panic".into(),
        };
        writeln!(out, "step {} {} {}", t, label, snapshot(&shared)).unwrap();
    }
    // clean-up: finish the other threads, then make the loop return
    for t in 1..=n {
        for _ in 0..100 {
            match sched.step(t) {
                StepResult::Done | StepResult::Skip | StepResult::Panicked => break,
                _ => {}
            }
        }
    }
    shared.complete.store(true, Ordering::SeqCst);
    for _ in 0..200 {
        signal.stop();
        signal.wakeup();
        match sched.step(0) {
            StepResult::Done | StepResult::Skip | StepResult::Panicked => break,
            _ => {}
        }
    }
    writeln!(out, "final").unwrap();
    for j in joins {
        let _ = j.join();
    }
}

pub fn run() -> i32 {
    let stdin = std::io::stdin();
    let out = std::io::stdout();
    let mut out = std::io::BufWriter::new(out.lock());
    let mut name = String::new();
    let mut block_on = false;
    let mut progs: Vec<Vec<String>> = Vec::new();
    let mut schedule: Vec<usize> = Vec::new();
    let mut self_wake = 0usize;
    let parse_prog = |s: &str| -> Vec<String> { s.split(';').map(|x| x.trim().to_string()).filter(|x| !x.is_empty()).collect() };
    for line in stdin.lock().lines() {
        let line = line.unwrap();
        let l = line.trim();
        if l.is_empty() || l.starts_with('#') {
            continue;
        }
        let w: Vec<&str> = l.split_whitespace().collect();
        match w[0] {
            "case" => {
                name = w.get(1).unwrap_or(&"").to_string();
                block_on = false;
                self_wake = 0;
                progs.clear();
                schedule.clear();
            }
            "mode" => block_on = w[1] == "blockon",
            "selfwake" => self_wake = w[1].parse().unwrap_or(0),
            "threads" => progs = vec![Vec::new(); w[1].parse().unwrap()],
            "thread" => {
                let i: usize = w[1].trim_end_matches(':').parse().unwrap();
                let body = l.splitn(2, ':').nth(1).unwrap_or("");
                if i >= 1 && i <= progs.len() {
                    progs[i - 1] = parse_prog(body);
                }
            }
            "sched" => schedule = w[1..].iter().filter_map(|x| x.parse().ok()).collect(),
            "end" => run_case(&name, block_on, self_wake, progs.clone(), schedule.clone(), &mut out),
            _ => {}
        }
    }
    0
}
