//! C12: what `dispatch(timeout)` asks the poller to wait (verification hook `record_poll`) and how long it
//! actually waits.  One case = a loop with idle sources and timers, then two dispatches.
use calloop::channel::channel;
use calloop::ping::make_ping;
use calloop::timer::{TimeoutAction, Timer};
use calloop::verif::PollRecord;
use calloop::EventLoop;
use std::cell::RefCell;
use std::io::{BufRead, Write};
use std::rc::Rc;
use std::sync::Mutex;
use std::time::{Duration, Instant};

static RECORDS: Mutex<Vec<PollRecord>> = Mutex::new(Vec::new());

fn hook(r: PollRecord) {
    RECORDS.lock().unwrap().push(r);
}

fn ns(d: Option<Duration>) -> String {
    match d {
        Some(d) => format!("{}", d.as_nanos()),
        None => "none".into(),
    }
}

fn run_case(lines: &[String], out: &mut impl Write) {
    let mut el: EventLoop<'static, ()> = EventLoop::try_new().unwrap();
    let h = el.handle();
    let mut timeout: Option<Duration> = Some(Duration::ZERO);
    let fired: Rc<RefCell<Vec<i64>>> = Rc::new(RefCell::new(Vec::new()));
    let base = Instant::now();
    // every timer: (name, the deadline it is currently armed for — None once fired-and-dropped or cancelled)
    let mut deadlines: Vec<(i64, Rc<std::cell::Cell<Option<Instant>>>)> = Vec::new();
    // what to do with a timer between the two dispatches: (index into `deadlines`, "cancel" | "disable", token)
    let mut between: Vec<(usize, String, calloop::RegistrationToken)> = Vec::new();
    let mut keep: Vec<Box<dyn std::any::Any>> = Vec::new();
    let mut waker: Option<u64> = None;
    let mut ndispatch = 2usize;
    let mut has_closed = false;
    let mut has_synth = false;
    for l in lines {
        let w: Vec<&str> = l.split_whitespace().collect();
        match w[0] {
            "timeout" => {
                timeout = if w[1] == "none" { None } else { Some(Duration::from_millis(w[1].parse().unwrap())) }
            }
            "timer" => {
                if w[1] == "none" {
                    h.insert_source(Timer::from_duration(Duration::MAX), |_, _, _| TimeoutAction::Drop).unwrap();
                } else if w[1] == "late" {
                    // timer late MS [disabled]: registered with an unrepresentable deadline (nothing is armed), then
                    // given a real one by set_deadline + update — which arms it, unless it was disabled in between
                    let ms: i64 = w[2].parse().unwrap();
                    let disabled = w.iter().any(|x| *x == "disabled");
                    let nd = base + Duration::from_millis(ms as u64);
                    let cell = Rc::new(std::cell::Cell::new(None));
                    deadlines.push((ms, cell.clone()));
                    let f = fired.clone();
                    let c2 = cell.clone();
                    let disp = calloop::Dispatcher::new(Timer::from_duration(Duration::MAX), move |_, _: &mut (), _: &mut ()| {
                        f.borrow_mut().push(ms);
                        c2.set(None);
                        TimeoutAction::Drop
                    });
                    let tok = h.register_dispatcher(disp.clone()).unwrap();
                    if disabled {
                        h.disable(&tok).unwrap();
                    }
                    disp.as_source_mut().set_deadline(nd);
                    h.update(&tok).unwrap();
                    if !disabled {
                        cell.set(Some(nd));
                    }
                    keep.push(Box::new(disp));
                } else {
                    // timer MS [rearm R] [cancel|disable]: on its first expiry it re-arms itself R ms later; after the
                    // first dispatch it is removed / disabled from outside
                    let ms: i64 = w[1].parse().unwrap();
                    let dl = if ms >= 0 { base + Duration::from_millis(ms as u64) } else { base - Duration::from_millis((-ms) as u64) };
                    let rearm: Option<u64> = w.iter().position(|x| *x == "rearm").map(|i| w[i + 1].parse().unwrap());
                    let cell = Rc::new(std::cell::Cell::new(Some(dl)));
                    deadlines.push((ms, cell.clone()));
                    let f = fired.clone();
                    let mut rearm_left = rearm;
                    let moveto: Option<i64> = w.iter().position(|x| *x == "moveto").map(|i| w[i + 1].parse().unwrap());
                    let disp = calloop::Dispatcher::new(Timer::from_deadline(dl), move |_, _: &mut (), _: &mut ()| {
                            f.borrow_mut().push(ms);
                            match rearm_left.take() {
                                Some(r) => {
                                    let next = Instant::now() + Duration::from_millis(r);
                                    cell.set(Some(next));
                                    TimeoutAction::ToInstant(next)
                                }
                                None => {
                                    cell.set(None);
                                    TimeoutAction::Drop
                                }
                            }
                        });
                    let tok = h.register_dispatcher(disp.clone()).unwrap();
                    if let Some(m) = moveto {
                        // the timer is given another deadline before it ever fired: set_deadline + update
                        let nd = if m >= 0 { base + Duration::from_millis(m as u64) } else { base - Duration::from_millis((-m) as u64) };
                        disp.as_source_mut().set_deadline(nd);
                        h.update(&tok).unwrap();
                        deadlines.last().unwrap().1.set(Some(nd));
                    }
                    if w.iter().any(|x| *x == "park") {
                        // the armed timer is given a deadline that cannot be represented (set_duration(MAX) + update):
                        // from then on nothing is armed
                        disp.as_source_mut().set_duration(Duration::MAX);
                        h.update(&tok).unwrap();
                        deadlines.last().unwrap().1.set(None);
                    }
                    keep.push(Box::new(disp));
                    if let Some(op) = w.iter().find(|x| **x == "cancel" || **x == "disable") {
                        between.push((deadlines.len() - 1, op.to_string(), tok));
                    }
                }
            }
            "source" => match w[1] {
                "ping" => {
                    let (p, s) = make_ping().unwrap();
                    h.insert_source(s, |_, _, _| {}).unwrap();
                    keep.push(Box::new(p));
                }
                "pingclosed" => {
                    let (p, s) = make_ping().unwrap();
                    h.insert_source(s, |_, _, _| {}).unwrap();
                    drop(p);
                    has_closed = true;
                }
                "chan" => {
                    let (tx, rx) = channel::<u8>();
                    h.insert_source(rx, |_, _, _| {}).unwrap();
                    keep.push(Box::new(tx));
                }
                // an Async adapter that nobody awaits (registered with an empty interest); its peer alive or gone
                "adapteridle" | "adapterclosed" => {
                    let (a, b) = std::os::unix::net::UnixStream::pair().unwrap();
                    let io = h.adapt_io(a).unwrap();
                    keep.push(Box::new(io));
                    if w[1] == "adapterclosed" {
                        drop(b);
                        // (the hang-up is reported once — the registration is one-shot —, to the first dispatch)
                        has_closed = true;
                    } else {
                        keep.push(Box::new(b));
                    }
                }
                // sources with lifecycle hooks: `lifesynth` returns a synthetic event from every before_sleep,
                // `lifequiet` never does
                "lifesynth" | "lifequiet" => {
                    h.insert_source(LifeSrc { synth: w[1] == "lifesynth", token: None, slow: Duration::ZERO }, |_, _, _| {}).unwrap();
                    has_synth |= w[1] == "lifesynth";
                }
                // lifeslow MS: a quiet lifecycle source whose before_sleep hook takes MS ms: the wait that follows is
                // computed from the clock as it stands after the hooks
                "lifeslow" => {
                    let ms: u64 = w[2].parse().unwrap();
                    h.insert_source(LifeSrc { synth: false, token: None, slow: Duration::from_millis(ms) }, |_, _, _| {}).unwrap();
                }
                // a bounded channel that is exactly full when the first dispatch processes it: the second dispatch finds an
                // idle source (the channel must not have woken itself up)
                "chanfull" => {
                    let cap: usize = w.get(2).and_then(|x| x.parse().ok()).unwrap_or(2);
                    let (tx, rx) = calloop::channel::sync_channel::<u8>(cap);
                    for i in 0..cap {
                        tx.try_send(i as u8).unwrap();
                    }
                    h.insert_source(rx, |_, _, _| {}).unwrap();
                    keep.push(Box::new(tx));
                    has_closed = true; // (the first dispatch has something to deliver: only its computed wait is judged)
                }
                "chanclosed" => {
                    let (tx, rx) = channel::<u8>();
                    h.insert_source(rx, |_, _, _| {}).unwrap();
                    drop(tx);
                    has_closed = true;
                }
                _ => {}
            },
            "waker" => waker = Some(w[1].parse().unwrap()),
            "dispatches" => ndispatch = w[1].parse().unwrap(),
            _ => {}
        }
    }
    for i in 0..ndispatch {
        RECORDS.lock().unwrap().clear();
        let nfired = fired.borrow().len();
        // the first dispatch of a loop holding a source whose peers are gone returns at once (it delivers the
        // close): no wake-up is scheduled for it, so that none is left over for the second one
        let dispatch_over = std::sync::Arc::new(std::sync::atomic::AtomicBool::new(false));
        let wake_thread = waker.filter(|_| i >= 1 || !has_closed).map(|ms| {
            let sig = el.get_signal();
            let over = dispatch_over.clone();
            std::thread::spawn(move || {
                std::thread::sleep(Duration::from_millis(ms));
                // a wake-up is only sent to a dispatch that is still waiting (none may be left over)
                if !over.load(std::sync::atomic::Ordering::SeqCst) {
                    sig.wakeup();
                }
            })
        });
        let before = Instant::now();
        // the earliest deadline still armed, relative to `before`
        let due = deadlines.iter().filter_map(|(_, c)| c.get()).map(|dl| dl.saturating_duration_since(before)).min();
        el.dispatch(timeout, &mut ()).unwrap();
        let elapsed = before.elapsed();
        dispatch_over.store(true, std::sync::atomic::Ordering::SeqCst);
        if let Some(t) = wake_thread {
            let _ = t.join();
        }
        let recs = RECORDS.lock().unwrap().clone();
        let r = recs.first().copied();
        writeln!(
            out,
            "disp {} user={} next={} eff={} elapsed={} fired={} polls={} due={} synth={}",
            i,
            ns(r.and_then(|r| r.user_timeout)),
            ns(r.and_then(|r| r.next_timeout)),
            ns(r.and_then(|r| r.effective)),
            elapsed.as_nanos(),
            fired.borrow().len() - nfired,
            recs.len(),
            ns(due),
            has_synth as u8
        )
        .unwrap();
        if i == 0 {
            for (j, op, tok) in &between {
                if op == "cancel" {
                    h.remove(*tok);
                } else {
                    h.disable(tok).unwrap();
                }
                deadlines[*j].1.set(None);
            }
        }
    }
    drop(keep);
}

/// a source with lifecycle hooks that registers nothing with the poller
struct LifeSrc {
    synth: bool,
    token: Option<calloop::Token>,
    slow: Duration,
}

impl calloop::EventSource for LifeSrc {
    type Event = ();
    type Metadata = ();
    type Ret = ();
    type Error = std::io::Error;
    const NEEDS_EXTRA_LIFECYCLE_EVENTS: bool = true;

    fn process_events<F>(&mut self, _: calloop::Readiness, _: calloop::Token, mut cb: F) -> Result<calloop::PostAction, Self::Error>
    where
        F: FnMut((), &mut ()),
    {
        cb((), &mut ());
        Ok(calloop::PostAction::Continue)
    }
    fn register(&mut self, _: &mut calloop::Poll, tf: &mut calloop::TokenFactory) -> calloop::Result<()> {
        self.token = Some(tf.token());
        Ok(())
    }
    fn reregister(&mut self, _: &mut calloop::Poll, tf: &mut calloop::TokenFactory) -> calloop::Result<()> {
        self.token = Some(tf.token());
        Ok(())
    }
    fn unregister(&mut self, _: &mut calloop::Poll) -> calloop::Result<()> {
        self.token = None;
        Ok(())
    }
    fn before_sleep(&mut self) -> calloop::Result<Option<(calloop::Readiness, calloop::Token)>> {
        if !self.slow.is_zero() {
            std::thread::sleep(self.slow);
        }
        Ok(match (self.synth, self.token) {
            (true, Some(t)) => Some((calloop::Readiness { readable: true, writable: false, error: false }, t)),
            _ => None,
        })
    }
    fn before_handle_events(&mut self, _: calloop::EventIterator<'_>) {}
}

pub fn run() -> i32 {
    calloop::verif::install_poll_hook(hook);
    let stdin = std::io::stdin();
    let out = std::io::stdout();
    let mut out = std::io::BufWriter::new(out.lock());
    let mut cur: Vec<String> = Vec::new();
    for line in stdin.lock().lines() {
        let line = line.unwrap();
        let l = line.trim();
        if l.is_empty() || l.starts_with('#') {
            continue;
        }
        if l.starts_with("case") {
            writeln!(out, "{}", l).unwrap();
            cur.clear();
        } else if l == "end" {
            run_case(&cur, &mut out);
        } else {
            cur.push(l.to_string());
        }
    }
    0
}
