"""Shared plumbing of the check pipeline: locking, building, auditing, evidence, outcomes."""
import fcntl
import hashlib
import json
import os
import re
import subprocess
import sys
import time

ROOT = os.path.dirname(os.path.dirname(os.path.abspath(__file__)))
LEAN = os.path.join(ROOT, "lean")
HARNESS = os.path.join(ROOT, "harness")
VH = os.path.join(HARNESS, "target", "debug", "vh")
DRV = os.path.join(LEAN, ".lake", "build", "bin", "drv")
REPO = os.environ.get("VERIF_REPO", "/repo")
AXIOM_WHITELIST = {"propext", "Classical.choice", "Quot.sound"}
FORBIDDEN = ["sorry", "admit", "native_decide", "bv_decide", "implemented_by", "unsafe ", "maxHeartbeats 0"]

TRUSTED_BASE_COMMON = [
    "Lean 4.33.0 kernel (lake build; thorough tier re-checks the property modules with leanchecker)",
    "axioms allowed: propext, Classical.choice, Quot.sound (audited with #print axioms on every theorem; no native_decide / bv_decide / sorry / own axioms)",
    "tools/extract.py for the regenerated definitions (token arithmetic, constants, PostAction algebra)",
    "the correspondence check (harness/ vh, lean drv, tools/*.py generators, canonicaliser, diff): differential, sees only what the generators reach",
]


class Lock:
    def __init__(self, name):
        self.path = os.path.join(ROOT, ".lock-" + name)

    def __enter__(self):
        self.f = open(self.path, "w")
        fcntl.flock(self.f, fcntl.LOCK_EX)
        return self

    def __exit__(self, *a):
        fcntl.flock(self.f, fcntl.LOCK_UN)
        self.f.close()


def run(cmd, cwd=None, inp=None, timeout=None, env=None):
    e = dict(os.environ)
    e.setdefault("CARGO_NET_OFFLINE", "true")
    if env:
        e.update(env)
    try:
        p = subprocess.run(cmd, cwd=cwd, input=inp, capture_output=True, text=True, timeout=timeout, env=e)
    except subprocess.TimeoutExpired as ex:
        out = ex.stdout.decode(errors="replace") if isinstance(ex.stdout, bytes) else (ex.stdout or "")
        return 124, out, "timed out after %ss: %s" % (timeout, " ".join(cmd[:3]))
    return p.returncode, p.stdout, p.stderr


def extract():
    """Regenerate lean/Verif/Generated from the working tree.  Returns list of failure strings."""
    with Lock("lean"):
        rc, out, err = run([sys.executable, os.path.join(ROOT, "tools", "extract.py")])
    fails = [l for l in out.splitlines() if l.startswith("EXTRACT-FAIL")]
    if rc != 0 and not fails:
        fails = ["EXTRACT-FAIL extract.py crashed: " + err.strip()[-400:]]
    return fails


def theorem_names(lean_file):
    """Names (with namespace) of every `theorem` in a Lean file, comments stripped."""
    src = open(lean_file).read()
    src = re.sub(r"/-.*?-/", lambda m: "\n" * m.group(0).count("\n"), src, flags=re.S)
    src = re.sub(r"--[^\n]*", "", src)
    ns, names = [], []
    for line in src.splitlines():
        m = re.match(r"\s*namespace\s+(\S+)", line)
        if m:
            ns.append(m.group(1))
            continue
        m = re.match(r"\s*end\s+(\S+)", line)
        if m and ns and ns[-1].endswith(m.group(1).split(".")[-1]):
            ns.pop()
            continue
        m = re.match(r"\s*(?:private\s+|protected\s+)?theorem\s+([^\s:({\[]+)", line)
        if m:
            if re.match(r"\s*private", line):
                continue  # private names cannot be referenced from the audit file; their users are audited
            names.append(".".join(ns + [m.group(1)]))
    return names


def forbidden_tokens(files):
    hits = []
    for f in files:
        src = open(f).read()
        src = re.sub(r"/-.*?-/", lambda m: "\n" * m.group(0).count("\n"), src, flags=re.S)
        for n, line in enumerate(src.splitlines(), 1):
            code = re.sub(r"--.*", "", line)
            for tok in FORBIDDEN:
                if tok in code:
                    hits.append("%s:%d: %s" % (os.path.relpath(f, ROOT), n, tok.strip()))
            if re.match(r"\s*axiom\s", code):
                hits.append("%s:%d: axiom" % (os.path.relpath(f, ROOT), n))
    return hits


def module_file(mod):
    return os.path.join(LEAN, *mod.split(".")) + ".lean"


def lean_build(modules, want_drv=True):
    """lake build of the given modules (+ drv).  Returns (ok, error_text)."""
    targets = list(modules) + (["drv"] if want_drv else [])
    with Lock("lean"):
        rc, out, err = run(["lake", "build"] + targets, cwd=LEAN, timeout=3000)
    if rc == 0:
        return True, ""
    text = out + err
    errs = [l for l in text.splitlines() if "error" in l]
    return False, "\n".join(errs[:40]) + "\n---- full tail ----\n" + text[-3000:]


def failing_theorems(error_text):
    """Map `file:line:` error positions back to the enclosing theorem names."""
    out = []
    for m in re.finditer(r"error: (\S+\.lean):(\d+):\d+", error_text):
        path = os.path.join(LEAN, m.group(1)) if not os.path.isabs(m.group(1)) else m.group(1)
        line = int(m.group(2))
        try:
            src = open(path).read().splitlines()
        except OSError:
            continue
        name = None
        for i in range(min(line, len(src)) - 1, -1, -1):
            mm = re.match(r"\s*(?:private\s+)?(?:theorem|def|example|instance|abbrev)\s*([^\s:({\[]*)", src[i])
            if mm:
                name = mm.group(1) or "example"
                break
        out.append("%s:%d (%s)" % (m.group(1), line, name))
    return sorted(set(out))


def audit(pid, modules):
    """#print axioms for every theorem of the given modules.  Returns (obligations, discharged, bad, axioms_seen)."""
    names = []
    for mod in modules:
        names += theorem_names(module_file(mod))
    os.makedirs(os.path.join(LEAN, "Audit"), exist_ok=True)
    path = os.path.join(LEAN, "Audit", pid + ".lean")
    body = "".join("import %s\n" % m for m in modules) + "".join("#print axioms %s\n" % n for n in names)
    with open(path, "w") as f:
        f.write(body)
    with Lock("lean"):
        rc, out, err = run(["lake", "env", "lean", path], cwd=LEAN, timeout=1200)
    text = out + err
    seen = {}
    for m in re.finditer(r"'([^']+)' depends on axioms: \[([^\]]*)\]", text):
        seen[m.group(1)] = [a.strip() for a in m.group(2).replace("\n", " ").split(",") if a.strip()]
    for m in re.finditer(r"'([^']+)' does not depend on any axioms", text):
        seen[m.group(1)] = []
    discharged, bad, axioms = [], [], set()
    for n in names:
        if n not in seen:
            bad.append("%s: not checked (%s)" % (n, "audit failed" if rc != 0 else "no output"))
            continue
        extra = [a for a in seen[n] if a not in AXIOM_WHITELIST]
        axioms.update(seen[n])
        if extra:
            bad.append("%s: uses axioms %s" % (n, extra))
        else:
            discharged.append(n)
    hits = forbidden_tokens([module_file(m) for m in modules])
    bad += ["forbidden token " + h for h in hits]
    return names, discharged, bad, sorted(axioms)


def leanchecker(modules):
    with Lock("lean"):
        rc, out, err = run(["lake", "env", "leanchecker"] + list(modules), cwd=LEAN, timeout=3000)
    return rc == 0, (out + err)[-2000:]


def cargo_build():
    with Lock("cargo"):
        if not os.path.exists(os.path.join(HARNESS, "Cargo.lock")):
            import shutil
            shutil.copy(os.path.join(REPO, "Cargo.lock"), os.path.join(HARNESS, "Cargo.lock"))
        rc, out, err = run(["cargo", "build", "--offline"], cwd=HARNESS, timeout=3000)
    return rc == 0, (out + err)[-3000:]


def run_vh(mode, text, args=(), timeout=600):
    """Runs the harness on a batch of cases.  A harness process that dies is re-run once (a crash that does not
    repeat is an accident of the machine — thread or descriptor exhaustion under load —, not a fact about the
    tree); the panic message is the head of stderr, so that is what is kept."""
    rc, out, err = run([VH, mode] + list(args), inp=text, timeout=timeout)
    if rc not in (0, 124):
        rc2, out2, err2 = run([VH, mode] + list(args), inp=text, timeout=timeout)
        if rc2 == 0:
            return rc2, out2, err2
        head = "\n".join(err2.splitlines()[:12])
        return rc2, out2, head + "\n…\n" + err2[-300:]
    return rc, out, err


def run_drv(mode, text, args=(), timeout=600):
    rc, out, err = run([DRV, mode] + list(args), inp=text, timeout=timeout)
    return rc, out, err


def write_replay(pid, files, tag=None):
    h = hashlib.sha1(("".join(sorted(files.values())) + (tag or "")).encode()).hexdigest()[:12]
    d = os.path.join(ROOT, "replays", pid, h)
    os.makedirs(d, exist_ok=True)
    for name, content in files.items():
        with open(os.path.join(d, name), "w") as f:
            f.write(content)
    return d


def load_known_findings(pid):
    path = os.path.join(ROOT, "known_findings.json")
    if not os.path.exists(path):
        return [], []
    data = json.load(open(path))
    return ([f for f in data.get("findings", []) if f["property"] == pid],
            [f for f in data.get("fixed", []) if f["property"] == pid])


class Result:
    """Accumulates what one check run covered and found."""

    def __init__(self, pid, tier, seed):
        self.pid, self.tier, self.seed = pid, tier, seed
        self.t0 = time.time()
        self.cov = {"evaluations": 0, "distinct_nontrivial": 0, "samples": [], "rule": "",
                    "obligations": 0, "discharged": 0, "checker_cmd": "", "trusted_base": [],
                    "traces_validated_against_impl": 0, "model_impl_disagreements": 0,
                    "impl_monitor_failures": 0, "known_findings_seen": [], "timing_inconclusive": 0}
        self.assumptions = []
        self.broken = []        # proof obligations / translator / correspondence that no longer check
        self.violations = []    # (description, replay_dir) with a concrete failing input
        self.known = []         # KNOWN-FINDING lines

    def finish(self):
        ev = {"property_id": self.pid, "tier": self.tier, "seed": self.seed, "level": "proof",
              "coverage": self.cov, "assumptions": self.assumptions,
              "wall_s": round(time.time() - self.t0, 2),
              "violations": len(self.violations) + (1 if self.broken and not self.violations else 0)}
        os.makedirs(os.path.join(ROOT, "evidence"), exist_ok=True)
        with open(os.path.join(ROOT, "evidence", self.pid + ".json"), "w") as f:
            json.dump(ev, f, indent=1, sort_keys=True)
        for line in self.known:
            print("KNOWN-FINDING: property=%s %s" % (self.pid, line))
        if self.violations:
            for desc, replay in self.violations:
                print("VIOLATION property=%s replay=%s" % (self.pid, replay))
                print("  " + desc)
            return 1
        if self.broken:
            body = "No concrete failing input was found by the search, but the property is no longer shown to hold.\n\n"
            body += "\n\n".join(self.broken)
            d = write_replay(self.pid, {"broken.txt": body}, tag="broken")
            print("VIOLATION property=%s replay=%s no-failing-input-found" % (self.pid, os.path.join(d, "broken.txt")))
            return 1
        print("OK property=%s tier=%s obligations=%d discharged=%d evaluations=%d wall=%.1fs" % (
            self.pid, self.tier, self.cov["obligations"], self.cov["discharged"], self.cov["evaluations"],
            time.time() - self.t0))
        return 0


def load_case_corpus(pid, ext):
    """minimised past failures kept under corpus/<pid>/*.<ext> (one case per file): they run first in every check"""
    import glob
    out = []
    for f in sorted(glob.glob(os.path.join(ROOT, "corpus", pid, "*." + ext))):
        lines = [l.rstrip("\n") for l in open(f) if l.strip() and not l.startswith("#")]
        if lines:
            out.append(lines)
    return out
