"""Runs core histories on the real loop (`vh core`) and on the model (`drv core`), in parallel chunks,
and compares the observation streams case by case."""
import concurrent.futures as cf
import os

import common as C


def split_cases(lines):
    out, cur = [], None
    for l in lines:
        if l.startswith("case "):
            if cur is not None:
                out.append(cur)
            cur = [l]
        elif cur is not None:
            cur.append(l)
    if cur is not None:
        out.append(cur)
    return out


def _run_chunk(args):
    cases, tick, want_model = args
    text = "\n".join("\n".join(c) for c in cases) + "\n"
    rc, impl, err = C.run_vh("core", text, args=[str(tick)], timeout=1800)
    if rc != 0:
        return ("error", "vh core failed rc=%s: %s" % (rc, err[-400:]), None)
    model = None
    if want_model:
        rc, model, err = C.run_drv("core", text, timeout=1800)
        if rc != 0:
            return ("error", "drv core failed: " + err[-400:], None)
        model = split_cases(model.splitlines())
    return ("ok", split_cases(impl.splitlines()), model)


def run_cases(cases, tick=4, want_model=True, workers=None, retries=3):
    """Returns (impl_traces, model_traces, inconclusive_indices).  Cases whose dispatch straddled a tick
    boundary are re-run (alone) up to `retries` times."""
    workers = workers or min(16, os.cpu_count() or 4)
    n = len(cases)
    chunk = max(1, (n + workers * 4 - 1) // (workers * 4))
    jobs = [(cases[i:i + chunk], tick, want_model) for i in range(0, n, chunk)]
    impl, model = [], []
    with cf.ThreadPoolExecutor(max_workers=workers) as ex:
        for (status, a, b), job in zip(ex.map(_run_chunk, jobs), jobs):
            if status != "ok":
                raise RuntimeError(a)
            if len(a) != len(job[0]) or (want_model and len(b) != len(job[0])):
                raise RuntimeError("trace count mismatch in a chunk (%d cases, %d impl, %s model)" % (
                    len(job[0]), len(a), len(b) if b is not None else "-"))
            impl += a
            if want_model:
                model += b
    inconclusive = []
    for i in range(n):
        tries = 0
        while impl[i] and impl[i][-1] == "timing-inconclusive" and tries < retries:
            status, a, b = _run_chunk(([cases[i]], tick * 2, False))
            if status != "ok":
                raise RuntimeError(a)
            impl[i] = a[0]
            tries += 1
        if impl[i] and impl[i][-1] == "timing-inconclusive":
            inconclusive.append(i)
    impl = [[l for l in t if l != "timing-inconclusive"] if i not in inconclusive else t for i, t in enumerate(impl)]
    return impl, (model if want_model else None), inconclusive


def first_diff(a, b):
    for i, (x, y) in enumerate(zip(a, b)):
        if x != y:
            return i, x, y
    if len(a) != len(b):
        i = min(len(a), len(b))
        return i, (a[i] if i < len(a) else "<missing>"), (b[i] if i < len(b) else "<missing>")
    return None
