#!/usr/bin/env python3
"""Writes MANIFEST.json from the table below (kept in one place so it is always valid)."""
import json, os
ROOT = os.path.dirname(os.path.dirname(os.path.abspath(__file__)))
ALL = ["C%02d" % i for i in range(1, 21)]

CLAIMED = {
 "C20": dict(
   text="Lean 4 theorems (unpack_pack, pack_unpack, pack_inj, pack_lt_word, pack_ne_notify, bumpN_same_iff, factory_tokens, factory_keys_distinct, factory_overflow, src_roundtrip…) for every value of the three fields and every 64-bit key, about a model whose arithmetic is regenerated from src/token.rs on every run and bridged by proof; the factory and the hooks are tied by a differential run of the real code on boundary and random values.",
   note="Trusted: Lean kernel, axioms {propext, Classical.choice, Quot.sound}, tools/extract.py (the Rust-expression translator), the 64-bit arm of token.rs only; TokenFactory is hand-modelled and tied by the correspondence (differential, sampled).",
   technique="Lean 4 proof (omega/induction) over a source-regenerated model + bridge lemmas + differential correspondence",
   design="§6 C20"),
 "C18": dict(
   text="Lean 4 theorem C18_partial: for every sequence (any length) of child answers, remove()/replace() and parent register/reregister/unregister calls from both From<T> and Default in which no child answers Disable, the monitor Spec_C18 (no double register/unregister, unregistered before dropped, events only to the current child, only Continue/Reregister returned, registered iff current kept child of a registered parent) flags nothing on protocol-following prefixes; proved by an invariant relating the six wrapper states to the monitor's abstract view. C18_full_false proves the unrestricted statement false (finding F7). The model mirrors transient.rs arm for arm and is compared with the real TransientSource on every sequence of length <= 5 (quick) / 6 (thorough) plus random longer ones, with real ping sources as children and the kernel epoll table size checked after each call; the same Spec_C18 judges the implementation traces.",
   note="Trusted: Lean kernel + the three standard axioms; Spec_C18 as the reading of the English; hand-written model tied by exhaustive small-scope differential runs (not by translation); children assumed fd-backed and otherwise infallible. Known finding F7 (Disable conflation) is excluded from the proved statement by the hypothesis `no child answers Disable` and reported as KNOWN-FINDING.",
   technique="Lean 4 invariant proof over a hand-written model + exhaustive small-scope correspondence + Lean monitor on implementation traces",
   design="§6 C18"),
}
PENDING_REASON = "not claimed yet in this revision: model and theorems are being built (see DESIGN.md §12 build order); no check is registered rather than registering an unsound one"

def main():
    checks = []
    for pid in ALL:
        if pid not in CLAIMED:
            continue
        c = CLAIMED[pid]
        checks.append({
            "property_id": pid,
            "quick_cmd": "./check %s quick" % pid,
            "thorough_cmd": "./check %s thorough" % pid,
            "evidence_file": "evidence/%s.json" % pid,
            "replay_cmd_template": "./check --replay {path}",
            "engine": "lean-proof+correspondence",
            "level_claimed": {"category": "proof", "text": c["text"], "design_ref": c["design"]},
            "level_note": c["note"],
            "technique": c["technique"],
        })
    m = {
        "version": 1,
        "setup_cmd": "./setup.sh",
        "hooks": {
            "guard": "--cfg calloop_verif (rustc cfg flag)",
            "enable": "harness/.cargo/config.toml sets rustflags = [\"--cfg\", \"calloop_verif\"] for the harness build, which compiles /repo as a path dependency",
            "baseline_off_cmd": "cd /repo && cargo test --workspace --no-fail-fast --offline",
            "source_commits": json.load(open(os.path.join(ROOT, "hooks.json")))["source_commits"],
            "add_only": True,
        },
        "engines": [{"name": "lean-proof+correspondence", "path": "lean/ harness/ tools/",
                     "serves_properties": sorted(CLAIMED),
                     "kind_free_text": "Lean 4 theorems about executable models; models tied to /repo by a translator (tools/extract.py) and by differential runs of the real crate (harness/vh) against the compiled model driver (lean drv)"}],
        "checks": checks,
        "not_applicable": [{"property_id": p, "reason": PENDING_REASON} for p in ALL if p not in CLAIMED],
        "notes": "Every check rebuilds from /repo's working tree. Known findings: known_findings.json. Seeded mutants: seeded/.",
    }
    json.dump(m, open(os.path.join(ROOT, "MANIFEST.json"), "w"), indent=1)

if __name__ == "__main__":
    main()
