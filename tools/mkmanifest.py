#!/usr/bin/env python3
"""Writes MANIFEST.json from the table below (kept in one place so it is always valid)."""
import json, os
ROOT = os.path.dirname(os.path.dirname(os.path.abspath(__file__)))
ALL = ["C%02d" % i for i in range(1, 21)]

CLAIMED = {
 "C20": dict(
   text="Lean 4 theorems (unpack_pack, pack_unpack, pack_inj, pack_lt_word, pack_ne_notify, bumpN_same_iff, factory_tokens, factory_keys_distinct, factory_overflow, src_roundtrip…) for every value of the three fields and every 64-bit key, about a model whose arithmetic is regenerated from src/token.rs on every run and bridged by proof; the factory and the hooks are tied by a differential run of the real code on boundary and random values.",
   note="Trusted: Lean kernel, axioms {propext, Classical.choice, Quot.sound}, tools/extract.py (the Rust-expression translator), the 64-bit arm of token.rs only; TokenFactory is hand-modelled and tied by the correspondence (differential, sampled).",
   technique="Lean 4 proof (omega/induction) over a source-regenerated model + bridge lemmas + differential correspondence",
   design="§6 C20"),
 "C18": dict(
   text="Lean 4 theorem C18_partial: for every sequence (any length) of child answers, remove()/replace() and parent register/reregister/unregister calls from both From<T> and Default in which no child answers Disable, the monitor Spec_C18 (no double register/unregister, unregistered before dropped, events only to the current child, only Continue/Reregister returned, registered iff current kept child of a registered parent) flags nothing on protocol-following prefixes; proved by an invariant relating the six wrapper states to the monitor's abstract view. C18_full_false proves the unrestricted statement false (finding F7). The model mirrors transient.rs arm for arm and is compared with the real TransientSource on every sequence of length <= 5 (quick) / 6 (thorough) plus random longer ones, with real ping sources as children and the kernel epoll table size checked after each call; the same Spec_C18 judges the implementation traces.",
   note="Trusted: Lean kernel + the three standard axioms; Spec_C18 as the reading of the English; hand-written model tied by exhaustive small-scope differential runs (not by translation); children assumed fd-backed and otherwise infallible. Known finding F7 (Disable conflation) is excluded from the proved statement by the hypothesis `no child answers Disable` and reported as KNOWN-FINDING.",
   technique="Lean 4 invariant proof over a hand-written model + exhaustive small-scope correspondence + Lean monitor on implementation traces",
   design="§6 C18"),
}

def _core(pid, text, design):
    return dict(text=text + " Whole-history clauses: the real loop is run on the witness corpus and on generated histories (operations between dispatches and scripted callback programs, all source kinds incl. composite sources with lifecycle hooks and scripted failures), compared with the Lean model on every observation line the property's monitor reads, and judged by Spec.Core's %s clauses (a Lean monitor) on the implementation's own trace." % pid,
        note="Trusted: Lean kernel + standard axioms; Spec.Core as the reading of the English; the hand-written model of the loop (lean/Verif/Model/Loop.lean), of epoll/eventfd (Kernel.lean), of the timer wheel and the slot table, tied to the code by differential runs (sampled, not exhaustive). The theorems cover the mechanism (components); the history-level clauses are checked on sampled implementation traces, not proved for all histories.",
        technique="Lean 4 proofs about the model's components + correspondence of the executable loop model with the real crate + Lean monitor on implementation traces",
        design=design)

CORE = {
 "C01": ("Lean theorems: generation-checked slot lookup is sound (lookup_sound), a previous occupant's key is unroutable after reuse (stale_key_unroutable, below 2^16 reuses), reuse does not affect other slots, only vacant slots are handed out, the poller model reports only registered keys with requested readiness, the Generic gate accepts only the source's own (sub-)token; and over the WHOLE loop model (Verif.Inv.TokInv, a Hoare logic for the model's monad): after every history not aborted by a panic, unless a generation wrapped (ghost flag `aliased`, finding F12) (that no source object is ever inserted twice is proven: never_inserted_twice, Verif.Inv.OwnInv), a registration token resolves to no source but the one it was issued for (token_reaches_only_its_source), no dispatcher sits in two slots and the user's token for a slot's occupant is that slot's token (occupants_unique_and_known).", "§6 C01"),
 "C02": ("Lean theorems: readiness existing at registration or arriving later queues the poller entry, a ready level entry is reported and re-queued on every wait, Poll::poll leaves no expired timer behind (for every wheel and instant), the channel drain budget is >= 1 and an exhausted budget re-pings. Causes produced on other threads (ping, channel message/close, woken task) are covered by the wake invariants of PingProto / ChanProto / ExecProto (theorems of C03/C04/C10) and by running those monitors' 'pending cause => reported' clauses on controlled schedules and uncontrolled channel races of the real crate.", "§6 C02"),
 "C05": ("Lean theorems about the timer wheel for every wheel and instant: what a poll pops is due, in non-decreasing deadline order and complete (poll_pops_exactly_the_due_in_order), next_expired is never early and earliest-first, cancel removes the arming and only it, counters are fresh; and over the WHOLE loop model (Verif.Inv.WheelInv): after every history of operations, callback programs (ToInstant re-arming, cancel, remove, re-insert), failures and dispatches — not aborted, `enable` never applied to a timer still holding a registration (ghost flag reEnabled; enable_twice_leaves_residue shows why) — the counters in the wheel are pairwise distinct (wheel_counters_distinct, the hypothesis of cancel_final), every entry is the current arming of a timer object (wheel_has_no_residue) and no timer has two entries (one_entry_per_timer).", "§6 C05"),
 "C06": ("Lean theorems: after removal the token resolves to a vacant slot (token ops answer InvalidToken, remove is a no-op), after reuse it does not resolve at all, for any number of reuses below 2^16; C06_wrap_false proves the unrestricted claim false at exactly 2^16 reuses (finding F12, replayed on the real loop with 65536 insert/remove cycles); and over the WHOLE loop model (Verif.Inv.TokInv): token_reaches_only_its_source / occupants_unique_and_known for every history (not aborted, no generation wrap; that no object is ever inserted twice is itself proven, Verif.Inv.OwnInv): a token never reaches another source, whatever callbacks removed and re-inserted.", "§6 C06"),
 "C07": ("Lean theorems: an unregistered Generic rejects every event (also those already collected), a timer without registration or with its current arming still in the wheel does not fire, DEL removes the fd from table and ready list and nothing else, and does not consume the eventfd counter (readiness survives); over the whole loop model (Verif.Inv.Ctl): a disable/update issued outside event processing (top level, idle callbacks) acts at once and leaves nothing deferred (top_level_requests_are_immediate), and nothing deferred survives the event it was requested in (so it cannot reach another source).", "§6 C07"),
 "C08": ("Lean theorems about the dispatcher cell: disable/update aimed at the running source return 'deferred' with the state untouched (no borrow, no panic); register (enable) of the running source is the one panicking call = the documented exclusion; and over the WHOLE loop model (Verif.Inv.LifeInv): after every history (not aborted, no generation wrap; that no object is ever inserted twice is itself proven, Verif.Inv.OwnInv) every token in the additional-lifecycle set resolves to an occupied slot whose source has lifecycle hooks (lifecycle_tokens_resolve), so neither hook walk of the next dispatch can reach `unreachable!()` (next_dispatch_before_sleep_does_not_panic, next_dispatch_before_handle_does_not_panic) — including a source that removes itself in its callback and inserts another into the vacated slot (non-vacuity example).", "§6 C08"),
 "C09": ("Lean theorems: the | and |= tables for all 16 pairs about the definitions regenerated from src/sources/mod.rs on every run (plus commutativity, idempotence, associativity), the resolution of returned action vs deferred request (explicit non-Continue wins), and — over the WHOLE loop model, by a Hoare logic for its exception-state monad (Verif.Inv.Ctl) — pending_clear_after_every_event (for every event, loop state and callback program, incl. self-disable/update, removal, slot reuse and errors, one iteration of dispatch_events ends with pending_action = Continue and no dispatcher borrowed or held) and pending_clear_after_every_history (the same after every sequence of operations, scripts and dispatches): a post action is never carried over to a later event.", "§6 C09"),
 "C13": ("Lean theorems about dispatch_idles: the queue is taken (emptied) before the first callback, so idles inserted by idles go to the next dispatch; the snapshot is walked in order; a cancelled entry is a no-op; dropping the handle does not cancel; and over the WHOLE loop model (Verif.Inv.IdleQ): after every history the queued idles are pairwise distinct instances numbered below the instance counter (idle_queue_fresh) — nothing is queued twice, nothing that ran comes back.", "§6 C13"),
 "C14": ("Lean theorems about the additional-lifecycle set: registration idempotent and duplicate-free (finding F1's fix), unregistration removes exactly the token, a duplicate-free list is walked once per token, before_handle_events is given own-source events only; and over the WHOLE loop model (Verif.Inv.Life): after every history of operations, callback programs, failures and dispatches the lifecycle set is duplicate-free (lifecycle_set_duplicate_free), hence each listed source's hooks are called exactly once per walk (hooks_once_per_listed_source); and every listed token resolves to an inserted lifecycle source (lifecycle_tokens_resolve, Verif.Inv.LifeInv), so hooks are never run for a source that is gone.", "§6 C14"),
 "C15": ("Lean theorems: a slot handed out and vacated again leaks nothing (occupied count and every other slot's lookup unchanged), the batch loop processes every event and keeps the first error; and over the WHOLE loop model (Verif.Inv.LifeInv): whatever failed on the way (insertion, registration step, unregistration, event processing), the lifecycle set stays consistent with the slot table and the hook walks of the next dispatch do not panic (lifecycle_tokens_resolve, next_dispatch_before_sleep_does_not_panic).", "§6 C15"),
 "C16": ("Lean theorems about the poller model: ADD adds exactly one entry and fails on a present fd, MOD/DEL fail on an absent fd, DEL removes entry and ready-list node only, re-insertion after delete succeeds, dropping a source removes every fd it still had registered. The model's table is compared with the kernel's own (/proc/self/fdinfo) after every operation.", "§6 C16"),
}
for _pid, (_t, _d) in CORE.items():
    CLAIMED[_pid] = _core(_pid, _t, _d)

CLAIMED["C03"] = dict(
   text="Lean 4 theorems about PingProto, a labelled transition system of the eventfd ping protocol with ANY number of pinging threads and handle clones and every interleaving at the granularity of single eventfd writes / the loop's read: an 18-clause invariant proved by induction over reachability (omega), from which: no_lost_wakeup (a completed ping not yet followed by a callback keeps the fd readable with the ping bits, or the callback is the next step), poll_sees_owed / drain_reads_ping / callback_covers (the cycle that delivers it), env_monotone (no thread action takes readiness away), no_spurious + coalesce, counter_shape, close_once, outstanding_ping_then_removal, removed_is_quiescent (no spinning). The real Ping/PingSource is run under controlled thread schedules (all schedules of small configurations, random ones of larger) with yield points at every eventfd write/read and compared step by step (label, kernel eventfd counter, callbacks, registration) with the model; Spec_C03 judges the implementation traces.",
   note="Trusted: Lean kernel + standard axioms; eventfd/epoll semantics as modelled (atomic add / read-and-zero, level-triggered); the yield-point hooks and the scheduler harness; schedules are sampled (exhaustive only for small configurations). Liveness is proved as safety (wake-obligation invariant + enabledness of the delivering cycle), no fairness axiom.",
   technique="Lean 4 inductive invariant over an unbounded-thread LTS + schedule-controlled correspondence with the real crate + Lean monitor on implementation traces",
   design="§6 C03")

CLAIMED["C04"] = dict(
   text="Lean 4 theorems about ChanProto, an LTS of channel()/sync_channel(n) for every n and every drain budget >= 1, any number of sender threads and every interleaving of push / wake-write / pop steps: exactly_once_in_order (pushed = delivered ++ queued at every reachable state), closed_once_and_last, no_stranded_message and closed_is_owed (a queued message or a pending Closed always has a wake-up pending: counter >= 2, or a thread about to write, or the loop mid-drain / about to re-ping) by an 19-clause inductive invariant, removed_is_final, drain_makes_room; C04_sync0_false proves the blocking-send clause FALSE for the rendezvous channel by an explicit 8-step schedule ending in a state with no enabled loop or sender step (finding F9, replayed deterministically on the real crate). The real channel is run under controlled thread schedules and compared step by step with the model.",
   note="Trusted: Lean kernel + standard axioms; std mpsc modelled as a linearizable FIFO; eventfd as an atomic counter; yield-point hooks + scheduler harness; schedules are sampled. Known finding F9 (sync_channel(0)) is reported as KNOWN-FINDING; the bounded-send progress clause is proved as safety (wake invariant + enabledness), no fairness axiom.",
   technique="Lean 4 inductive invariants over an unbounded-thread LTS + explicit counter-example theorem + schedule-controlled correspondence with the real crate",
   design="§6 C04")

CLAIMED["C19"] = dict(
   text="Lean 4 theorems about SigMask for every operation sequence over arbitrary signal sets: mask_exact (while the source lives exactly the configured signals are blocked and watched; nothing stays blocked after drop) by an inductive invariant, pending_kept (a pending instance of a signal that stays configured survives add/remove/set: finding F8's fix), dispatch_reports_pending_once (each pending configured signal reported exactly once, ascending, cleared), reports_only_configured, unconfigured_untouched, configured_becomes_pending, drop_unblocks. The real Signals source is run in a single-threaded process on every operation sequence of length <= 2 (quick) / 3 (thorough) plus random longer ones; thread mask (pthread_sigmask), handler counters and events are compared with the model after every call and judged by C19's clauses.",
   note="Trusted: Lean kernel + standard axioms; POSIX standard-signal semantics as modelled (coalescing pending set, delivery on unblock, signalfd dequeues ascending) — observed on the real kernel by the correspondence; three signals (USR1, USR2, WINCH); single-threaded process; sender information fields of the event are not modelled.",
   technique="Lean 4 inductive invariant + pointwise lemmas over a hand-written model + exhaustive small-scope correspondence on the real kernel",
   design="§6 C19")

CLAIMED["C12"] = dict(
   text="Lean 4 theorems about the computed wait for every timeout, deadline and instant: eff_min, eff_le_user, eff_le_deadline (no oversleeping of the limit), eff_ge_min (no spinning), eff_none_iff (unlimited only with timeout None and no armed timer), eff_zero, expired_zero, synthetic_zero, plus the bridge lemma to the `match (timeout, next_timeout)` of Poll::poll regenerated from src/sys.rs on every run. On the real loop the value handed to the poller is recorded by a hook for timeout {0, short, long, None} x timers {none, earlier, equal, later, expired, unrepresentable} x idle sources incl. closed peers and compared exactly; the next-deadline input is checked against the earliest armed timer; the elapsed wall time is measured.",
   note="PARTIAL by nature: the theorem decides the computed timeout (and is tied to the source by translation); the actual sleep is the kernel's and is measured with tolerances (>= eff - 1 ms, <= eff + 250 ms; a miss must reproduce 3/3), not proved. Trusted: Lean kernel + standard axioms, tools/extract.py, the record_poll hook, Instant monotonicity.",
   technique="Lean 4 proof over a model bridged to a source-regenerated definition + hook-recorded exact comparison + wall-clock measurement",
   design="§6 C12")

CLAIMED["C11"] = dict(
   text="Lean 4 theorems about SignalProto (any number of stopping / waking threads, every interleaving of flag accesses, notify, entering and leaving the wait; run and block_on) from a 22-clause inductive invariant: stopped_only_if_requested, stop_then_next_check_exits (at most the iteration in progress finishes), stop_wakeup_wait_returns (stop then wakeup never leaves the loop blocked), wakeup_makes_wait_return + only_wait_return_consumes_wakeup (a wake-up issued before the loop blocks is not lost), block_on_polls_initially, block_on_wake_not_lost, block_on_wake_keeps_flag, swap_polls, wake_during_poll_not_lost (the flag swap and the poll are separate steps: a wake landing while the future is being polled, from another thread or from the future itself, is followed by another poll), block_on_result (Some iff the future completed, None iff stop first). The real run()/block_on() are executed under controlled thread schedules with yield points at every flag access and around the poller wait (a blocked loop thread is recognised through its kernel state) and compared step by step with the model.",
   note="Trusted: Lean kernel + standard axioms; Poller::notify by its documented contract (sticky flag); SeqCst-like atomics; yield-point hooks + scheduler harness; schedules sampled. 'Promptly' is not timed (the wait returning is what is checked/proved). Liveness as safety: wake-obligation invariants + enabledness, no fairness axiom.",
   technique="Lean 4 inductive invariant over an unbounded-thread LTS + schedule-controlled correspondence with the real crate",
   design="§6 C11")

CLAIMED["C10"] = dict(
   text="Lean 4 theorems about ExecProto (any number of waker threads, every interleaving of enqueue / notified-flag swap / eventfd write / flag clear / dequeue steps, every batch limit >= 1): no_lost_wake (a queued runnable always has a wake-up pending), flag_sound (why a sender may skip the ping when `notified` is set), scheduled_has_runnable (each scheduled task has exactly one runnable), batch_never_strands, result_once (outputs delivered exactly once, to completed tasks only), completed_is_final, polled_on_loop_only, drop_drops_all — from an arithmetic invariant (omega) and a per-task list invariant. The real Executor/Scheduler runs under controlled thread schedules with yield points at every one of those steps, plus a 1025-runnable batch-limit case, compared step by step with the model (eventfd counter, polls per task, delivered outputs).",
   note="Trusted: Lean kernel + standard axioms; async_task modelled by its contract; mpsc as FIFO; atomics as single steps; yield-point hooks + scheduler harness; schedules sampled. StreamSource is not modelled separately (its wake path is the ping protocol of C03; its item loop is sequential). '!Send' enforcement is the compiler's; here it is a ghost-ownership theorem plus a thread-id observation in the harness futures.",
   technique="Lean 4 inductive invariants (arithmetic + list) over an unbounded-thread LTS + schedule-controlled correspondence with the real crate",
   design="§6 C10")

CLAIMED["C17"] = dict(
   text="Lean 4 theorems about AsyncProto (one direction of one adapter: task, one-shot registration, peer; every chunking and every placement of the loop's reports) from an inductive invariant: conservation (read + held = written), no_lost_wake (a parked task with a ready fd has its registration armed and queued, so the next wait wakes it — including progress made between the WouldBlock and the arming, which the MOD re-evaluates), parked_is_armed, parked_waker_is_current (a wait polled under one waker and, before the fd is ready, under another wakes the last one), task_state_exclusive, flags_and_registration (non-blocking while alive; previous mode restored and nothing left in the poller after drop / into_inner). Real transfers over socketpairs (reader and writer tasks on the calloop executor, chunk sizes 1..200000, totals up to 700000 bytes so that the socket buffer fills) are judged by the same clauses and compared with the model at quiescent points.",
   note="PARTIAL: the byte transport is the kernel's; content and order are checked on real runs with a position-dependent pattern, not proved. The send-buffer size is not modelled (large writes are judged by the clauses only). Single waiter per adapter (the &mut self API). Trusted: Lean kernel + standard axioms, one-shot epoll semantics as modelled.",
   technique="Lean 4 inductive invariant over a small LTS + differential runs of the real adapter over socketpairs",
   design="§6 C17")

PENDING_REASON = "not claimed yet in this revision: model and theorems are being built (see DESIGN.md §12 build order); no check is registered rather than registering an unsound one"

def main():
    checks = []
    for pid in ALL:
        if pid not in CLAIMED:
            continue
        c = CLAIMED[pid]
        checks.append({
            "property_id": pid,
            "quick_cmd": "./check %s quick" % pid,
            "thorough_cmd": "./check %s thorough" % pid,
            "evidence_file": "evidence/%s.json" % pid,
            "replay_cmd_template": "./check --replay {path}",
            "engine": "lean-proof+correspondence",
            "level_claimed": {"category": "proof", "text": c["text"], "design_ref": c["design"]},
            "level_note": c["note"],
            "technique": c["technique"],
        })
    m = {
        "version": 1,
        "setup_cmd": "./setup.sh",
        "hooks": {
            "guard": "--cfg calloop_verif (rustc cfg flag)",
            "enable": "harness/.cargo/config.toml sets rustflags = [\"--cfg\", \"calloop_verif\"] for the harness build, which compiles /repo as a path dependency",
            "baseline_off_cmd": "cd /repo && cargo test --workspace --no-fail-fast --offline",
            "source_commits": json.load(open(os.path.join(ROOT, "hooks.json")))["source_commits"],
            "add_only": True,
        },
        "engines": [{"name": "lean-proof+correspondence", "path": "lean/ harness/ tools/",
                     "serves_properties": sorted(CLAIMED),
                     "kind_free_text": "Lean 4 theorems about executable models; models tied to /repo by a translator (tools/extract.py) and by differential runs of the real crate (harness/vh) against the compiled model driver (lean drv)"}],
        "checks": checks,
        "not_applicable": [{"property_id": p, "reason": PENDING_REASON} for p in ALL if p not in CLAIMED],
        "notes": "Every check rebuilds from /repo's working tree. Known findings: known_findings.json. Seeded mutants: seeded/.",
    }
    json.dump(m, open(os.path.join(ROOT, "MANIFEST.json"), "w"), indent=1)

if __name__ == "__main__":
    main()
