"""Shared check body of the single-threaded loop properties (C01 C02 C05 C06 C07 C08 C09 C13 C14 C15
C16): witness corpus first, then generated histories; the real loop against the model (projected onto
the observations the property's monitor reads); Spec.Core monitors on the implementation traces;
known findings; shrinking; evidence."""
import glob
import os

import common as C
import coresuite
import gen_core

BASE = (">", "ins", "op", "pe", "peret", "dispatch", "panic", "abort", "end", "loopdropped", "bad-op")
READS = {
    "C01": BASE + ("cb", "cbret"),
    "C02": BASE + ("cb", "cbret"),
    "C05": BASE + ("cb", "cbret", "st"),
    "C06": BASE + ("cb", "drop", "st"),
    "C07": BASE + ("cb", "st"),
    "C08": BASE,
    "C09": BASE + ("reg", "cb", "cbret", "st"),
    "C13": BASE + ("idle", "idleret"),
    "C14": BASE + ("bs", "bhe", "cb"),
    "C15": BASE + ("st", "cb", "reg"),
    "C16": BASE + ("ep", "reg", "cb"),
}
# findings whose tag the monitors attach to a violation message
TAGGED_FINDINGS = {"[F15]": "F15-unregistered-fd-source-acts-on-shared-fd", "[F12]": "F12-generation-wrap"}


def project(trace, pid):
    keep = READS[pid]
    return [l for l in trace if l.split(" ", 1)[0] in keep]


def monitor(traces):
    text = "\n".join("\n".join(t) for t in traces) + "\n"
    rc, out, err = C.run_drv("coremon", text, timeout=1800)
    if rc != 0:
        raise RuntimeError("drv coremon failed: " + err[-400:])
    v = out.splitlines()
    if len(v) != len(traces):
        raise RuntimeError("monitor gave %d verdicts for %d traces" % (len(v), len(traces)))
    return v


def verdict_for(v, pid):
    """-> list of (message) for this property from a verdict line"""
    if not v.startswith("viol "):
        return []
    return [p.split(" ", 1)[1] if " " in p else p for p in v[5:].split(" | ") if p.startswith(pid + "@")]


def run_one(case, want_model=True):
    impl, model, inc = coresuite.run_cases([case], want_model=want_model, workers=1)
    return impl[0], (model[0] if model else None), bool(inc)


def shrink(case, failing, budget=120):
    """ddmin over the op lines of one case; `failing(case) -> bool` re-runs it."""
    head, body, tail = case[0], case[1:-1], case[-1]
    n = 2
    while len(body) >= 2 and budget > 0:
        chunk = max(1, len(body) // n)
        reduced = False
        for i in range(0, len(body), chunk):
            cand = body[:i] + body[i + chunk:]
            budget -= 1
            if cand and failing([head] + cand + [tail]):
                body, n, reduced = cand, max(n - 1, 2), True
                break
            if budget <= 0:
                break
        if not reduced:
            if chunk == 1:
                break
            n = min(len(body), n * 2)
    return [head] + body + [tail]


def load_corpus():
    cases = []
    for f in sorted(glob.glob(os.path.join(C.ROOT, "corpus", "core", "*.ops")) +
                    glob.glob(os.path.join(C.ROOT, "corpus", "known", "*.ops"))):
        lines = [l.rstrip("\n") for l in open(f) if l.strip() and not l.startswith("#")]
        cases += coresuite.split_cases(lines)
    return cases


def run_property(res, pid, profiles, tier, seed, search, have_drv, n_quick=1500, n_thorough=60000):
    findings, fixed = C.load_known_findings(pid)
    fbyid = {f["id"]: f for f in findings}
    corpus = load_corpus()
    n = n_quick if tier == "quick" else n_thorough
    if search:
        n *= 10 if tier == "quick" else 2
    cases, dist = list(corpus), {}
    per = max(1, n // len(profiles))
    for j, prof in enumerate(profiles):
        cs, st = gen_core.generate(seed * 1000 + j, per, prof, prefix=pid.lower() + prof[:3])
        cases += cs
        for k, v in st.items():
            dist[k] = dist.get(k, 0) + v
    impl, model, inconclusive = coresuite.run_cases(cases, want_model=have_drv)
    skip = set(inconclusive)
    idxs = [i for i in range(len(cases)) if i not in skip]
    verdicts = monitor([impl[i] for i in idxs]) if have_drv else []
    vmap = dict(zip(idxs, verdicts))

    res.cov["evaluations"] = len(idxs)
    res.cov["timing_inconclusive"] = len(inconclusive)
    res.cov["corpus_cases"] = len(corpus)
    res.cov["distribution"] = {k: v for k, v in sorted(dist.items())}
    res.cov["profiles"] = profiles
    res.cov["rule"] = ("one evaluation = one history (operations between dispatches and scripted callback programs) executed on the real "
                       "EventLoop and on the Lean model; the observation streams are compared on the lines Spec_%s reads and the "
                       "implementation trace is judged by Spec.Core's %s clauses. distinct_nontrivial = distinct histories in which at "
                       "least one callback ran and at least one operation was issued from inside a callback" % (pid, pid))
    nontrivial = set()
    cb_kinds = {}
    unparsed = 0
    wf_false = 0
    known_seen = {}
    new_viol = []
    disagreements = []
    for i in idxs:
        t = impl[i]
        in_cb = False
        had_cb = had_cbop = False
        for l in t:
            if l.startswith("cb "):
                had_cb, in_cb = True, True
                w = l.split()
                cb_kinds[w[2]] = cb_kinds.get(w[2], 0) + 1
            elif l.startswith("peret ") or l.startswith("idleret"):
                in_cb = False
            elif l.startswith("idle "):
                in_cb = True
            elif l.startswith("> ") and in_cb:
                had_cbop = True
        if had_cb and had_cbop:
            nontrivial.add(tuple(cases[i][1:]))
        v = vmap.get(i, "")
        if v.startswith("unparsed"):
            unparsed += 1
        if v == "ok wf=false":
            wf_false += 1
        msgs = verdict_for(v, pid)
        if msgs:
            res.cov["impl_monitor_failures"] += 1
            tag = next((TAGGED_FINDINGS[tg] for tg in TAGGED_FINDINGS if any(m.startswith(tg) for m in msgs)), None)
            if tag and tag in fbyid and all(any(m.startswith(tg) for tg in TAGGED_FINDINGS) for m in msgs):
                known_seen.setdefault(tag, (cases[i], msgs[0]))
            else:
                new_viol.append((i, msgs))
        if model is not None and project(impl[i], pid) != project(model[i], pid):
            res.cov["model_impl_disagreements"] += 1
            disagreements.append(i)
    res.cov["distinct_nontrivial"] = len(nontrivial)
    res.cov["callbacks_by_payload"] = cb_kinds
    res.cov["histories_outside_documented_protocol"] = wf_false
    res.cov["traces_validated_against_impl"] = len(idxs) if model is not None else 0
    if unparsed:
        res.broken.append("%d implementation traces contain lines the monitor cannot parse" % unparsed)
    pick = [j for j in (len(corpus), len(corpus) + len(cases) // 3, len(cases) - 1) if j < len(cases)]
    res.cov["samples"] = [{"ops": cases[j], "impl_trace_head": impl[j][:25], "verdict": vmap.get(j)} for j in pick]
    for fid, (case, msg) in known_seen.items():
        res.known.append("%s: %s [met on: %s]" % (fid, fbyid[fid]["what_fails"], " ; ".join(case[1:-1])[:400]))
        res.cov["known_findings_seen"].append(fid)

    def viol_pred(c):
        it, _, inc = run_one(c, want_model=False)
        if inc:
            return False
        return bool(verdict_for(monitor([it])[0], pid))

    for i, msgs in new_viol[:2]:
        small = shrink(cases[i], viol_pred)
        it, mt, _ = run_one(small, want_model=have_drv)
        v = monitor([it])[0]
        m2 = verdict_for(v, pid)
        if not m2:           # every VIOLATION is re-executed from its replay before it is printed
            small, it, mt, m2 = cases[i], impl[i], (model[i] if model else None), msgs
        d = C.write_replay(pid, {"case.ops": "\n".join(small) + "\n", "impl.obs": "\n".join(it) + "\n",
                                 "model.obs": ("\n".join(mt) + "\n") if mt else "-\n",
                                 "verdict.txt": "Spec.Core on the implementation trace:\n" + "\n".join(m2) + "\n"})
        res.violations.append(("%s   [history: %s]" % (m2[0], " ; ".join(small[1:-1])[:600]), os.path.join(d, "case.ops")))
    if new_viol and len(new_viol) > 2:
        res.cov["further_violating_histories"] = len(new_viol) - 2

    if disagreements and not res.violations:
        def diff_pred(c):
            it, mt, inc = run_one(c, want_model=True)
            return (not inc) and project(it, pid) != project(mt, pid)
        i = disagreements[0]
        small = shrink(cases[i], diff_pred)
        it, mt, _ = run_one(small)
        fd = coresuite.first_diff(project(it, pid), project(mt, pid))
        if fd is None:
            small, it, mt = cases[i], impl[i], model[i]
            fd = coresuite.first_diff(project(it, pid), project(mt, pid))
        d = C.write_replay(pid, {"case.ops": "\n".join(small) + "\n", "impl.obs": "\n".join(it) + "\n",
                                 "model.obs": "\n".join(mt) + "\n"}, tag="diff")
        res.broken.append("correspondence: the real loop and the model disagree on the observations Spec_%s reads, in %d of %d histories; "
                          "minimal history: %s ; first difference: impl `%s` vs model `%s` (replay %s). Spec_%s accepts the "
                          "implementation's trace on every history explored." % (
                              pid, len(disagreements), len(idxs), " ; ".join(small[1:-1])[:500], fd[1], fd[2],
                              os.path.join(d, "case.ops"), pid))


def replay(path, pid):
    lines = [l.rstrip("\n") for l in open(path) if l.strip() and not l.startswith("#")]
    case = coresuite.split_cases(lines)[0]
    it, mt, inc = run_one(case)
    v = monitor([it])[0]
    print("--- implementation\n" + "\n".join(it))
    print("--- model\n" + "\n".join(mt))
    fd = coresuite.first_diff(project(it, pid), project(mt, pid))
    print("--- first difference on the lines Spec_%s reads: %s" % (pid, fd))
    print("--- Spec.Core verdict on the implementation trace: " + v)
    return 1 if (verdict_for(v, pid) or fd) else 0
