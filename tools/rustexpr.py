"""A tiny typed translator for the Rust expression forms used in calloop's pure
arithmetic (src/token.rs and a few constants).  Anything it does not understand
raises TranslateError: the tie between source and model is then *broken* and the
check reports it (never silently ignored).

Types: u8 u16 u32 u64 usize bool.  Integer values are rendered as Lean `Nat`
expressions; a cast `as uN` becomes `% 2^N`; `<<` keeps only the low bits of
the type; `wrapping_add` wraps at the type's width; `+` and `-` are rendered as
plain Nat `+` / truncated `-` (absence of overflow is a separate theorem).
"""
import re

WIDTH = {"u8": 8, "u16": 16, "u32": 32, "u64": 64, "usize": 64}


class TranslateError(Exception):
    pass


TOKEN_RE = re.compile(r"""
    (?P<ws>\s+)
  | (?P<num>0x[0-9a-fA-F_]+|[0-9][0-9_]*)(?P<suffix>u8|u16|u32|u64|usize)?
  | (?P<id>[A-Za-z_][A-Za-z0-9_]*)
  | (?P<op><<|>>|==|!=|<=|>=|&&|\|\||::|[-+*/%&|^!<>=.,;:(){}\[\]?])
""", re.X)


def tokenize(src):
    pos, out = 0, []
    while pos < len(src):
        m = TOKEN_RE.match(src, pos)
        if not m:
            raise TranslateError("cannot tokenize at %r" % src[pos:pos + 20])
        pos = m.end()
        if m.group("ws"):
            continue
        if m.group("num"):
            out.append(("num", m.group("num"), m.group("suffix")))
        elif m.group("id"):
            out.append(("id", m.group("id"), None))
        else:
            out.append(("op", m.group("op"), None))
    return out


# binding powers, Rust precedence (higher binds tighter)
BINOPS = {
    "||": 1, "&&": 2,
    "==": 3, "!=": 3, "<": 3, ">": 3, "<=": 3, ">=": 3,
    "|": 4, "^": 5, "&": 6, "<<": 7, ">>": 7,
    "+": 8, "-": 8, "*": 9, "/": 9, "%": 9,
}
CAST_BP = 10


class Parser:
    """env maps identifiers (and dotted field paths) to (lean_text, type)."""

    def __init__(self, toks, env, consts):
        self.toks, self.i, self.env, self.consts = toks, 0, env, consts

    def peek(self):
        return self.toks[self.i] if self.i < len(self.toks) else ("eof", "", None)

    def next(self):
        t = self.peek()
        self.i += 1
        return t

    def expect(self, val):
        t = self.next()
        if t[1] != val:
            raise TranslateError("expected %r, got %r" % (val, t[1]))

    def at_end(self):
        return self.i >= len(self.toks)

    def expr(self, minbp=0):
        lhs = self.unary()
        while True:
            t = self.peek()
            if t[0] == "id" and t[1] == "as" and CAST_BP >= minbp:
                self.next()
                ty = self.next()[1]
                if ty not in WIDTH:
                    raise TranslateError("cast to unsupported type %s" % ty)
                lhs = ("(%s %% 2^%d)" % (lhs[0], WIDTH[ty]), ty)
                continue
            if t[0] == "op" and t[1] in BINOPS and BINOPS[t[1]] >= minbp:
                op = t[1]
                self.next()
                rhs = self.expr(BINOPS[op] + 1)
                lhs = self.binop(op, lhs, rhs)
                continue
            break
        return lhs

    def unify(self, a, b):
        # untyped literals adopt the other side's type
        if a[1] is None and b[1] is None:
            return "usize"
        if a[1] is None:
            return b[1]
        if b[1] is None:
            return a[1]
        if a[1] != b[1]:
            raise TranslateError("type mismatch %s vs %s" % (a[1], b[1]))
        return a[1]

    def binop(self, op, a, b):
        if op in ("<<", ">>"):
            ty = a[1] or "usize"
            if op == "<<":
                return ("((%s <<< %s) %% 2^%d)" % (a[0], b[0], WIDTH[ty]), ty)
            return ("(%s >>> %s)" % (a[0], b[0]), ty)
        if op in ("&&", "||"):
            if a[1] != "bool" or b[1] != "bool":
                raise TranslateError("boolean operator on non-bool")
            return ("(%s %s %s)" % (a[0], op, b[0]), "bool")
        ty = self.unify(a, b)
        if op in ("==", "!=", "<", ">", "<=", ">="):
            lop = {"==": "==", "!=": "!=", "<": "<", ">": ">", "<=": "≤", ">=": "≥"}[op]
            if op in ("==", "!="):
                return ("(%s %s %s)" % (a[0], lop, b[0]), "bool")
            return ("(decide (%s %s %s))" % (a[0], lop, b[0]), "bool")
        lop = {"&": "&&&", "|": "|||", "^": "^^^", "+": "+", "-": "-", "*": "*", "/": "/", "%": "%"}[op]
        if ty == "bool":
            raise TranslateError("arithmetic on bool")
        return ("(%s %s %s)" % (a[0], lop, b[0]), ty)

    def unary(self):
        t = self.next()
        if t[0] == "num":
            txt = t[1].replace("_", "")
            val = int(txt, 16) if txt.startswith("0x") else int(txt)
            e = (str(val), t[2])
        elif t[0] == "op" and t[1] == "(":
            e = self.expr(0)
            self.expect(")")
            e = ("(%s)" % e[0], e[1])
        elif t[0] == "op" and t[1] == "!":
            e = self.unary()
            if e[1] != "bool":
                raise TranslateError("`!` on non-bool is not supported")
            e = ("(!%s)" % e[0], "bool")
        elif t[0] == "id":
            name = t[1]
            # paths: u64::MAX etc.
            if self.peek()[1] == "::":
                self.next()
                member = self.next()[1]
                if name in WIDTH and member == "MAX":
                    e = ("(2^%d - 1)" % WIDTH[name], name)
                else:
                    raise TranslateError("unsupported path %s::%s" % (name, member))
            elif name in self.env:
                e = self.env[name]
            elif name in self.consts:
                e = self.consts[name]
            else:
                raise TranslateError("unknown identifier %s" % name)
        else:
            raise TranslateError("unexpected token %r" % (t[1],))
        # postfix: field access and method calls
        while self.peek()[1] == ".":
            self.next()
            member = self.next()
            if member[0] not in ("id", "num"):
                raise TranslateError("bad member")
            if self.peek()[1] == "(":
                self.next()
                args = []
                while self.peek()[1] != ")":
                    args.append(self.expr(0))
                    if self.peek()[1] == ",":
                        self.next()
                self.expect(")")
                e = self.method(e, member[1], args)
            else:
                path = (e[3] if len(e) > 3 else None)
                if path is None:
                    raise TranslateError("field access on non-struct")
                fld = path.get(member[1])
                if fld is None:
                    raise TranslateError("unknown field %s" % member[1])
                e = ("%s.%s" % (e[0], member[1]), fld)
        return e[:2] if len(e) == 2 else e

    def method(self, recv, name, args):
        ty = recv[1]
        if name == "wrapping_add" and len(args) == 1 and ty in WIDTH:
            return ("((%s + %s) %% 2^%d)" % (recv[0], args[0][0], WIDTH[ty]), ty)
        if name == "min" and len(args) == 1:
            return ("(Nat.min %s %s)" % (recv[0], args[0][0]), ty)
        if name == "saturating_add" and len(args) == 1 and ty in WIDTH:
            return ("(Nat.min (%s + %s) (2^%d - 1))" % (recv[0], args[0][0], WIDTH[ty]), ty)
        raise TranslateError("unsupported method %s on %s" % (name, ty))


def translate(src, env=None, consts=None):
    """Translate one Rust expression.  Returns (lean_text, type)."""
    p = Parser(tokenize(src), env or {}, consts or {})
    e = p.expr(0)
    if not p.at_end():
        raise TranslateError("trailing tokens after expression: %r" % (p.peek()[1],))
    return e[0], e[1]
