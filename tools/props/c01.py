"""C01 — single-threaded loop property: see tools/coreprop.py (shared check body), lean/Verif/Props/C01.lean
(theorems), lean/Verif/Spec/Core.lean (monitor clauses tagged C01)."""
import coreprop

PID = "C01"
LEAN_MODULES = ['Verif.Inv.Slots', 'Verif.Inv.Kernel', 'Verif.Inv.TokInv', 'Verif.Inv.OwnInv', 'Verif.Props.C01']
PROFILES = ['all', 'reentrant', 'fd', 'timers']
TRUSTED_BASE = [
    "modelled, not verified: Linux epoll as used by polling 3.x (registration table + FIFO ready list, level/edge/oneshot), eventfd counters, std mpsc as a FIFO queue (single-threaded view), BinaryHeap pop order among equal deadlines (histories use distinct deadlines), Rc/RefCell as reference counts and borrow flags — all in lean/Verif/Model/{Kernel,Wheel,Slots,Loop}.lean and exercised against the real kernel/crate by the correspondence",
    "Spec.Core (lean/Verif/Spec/Core.lean) is the formal reading of the English property; its clauses for this property are evaluated on the real loop's traces",
    "the theorems of this property are about the mechanism (components of the model); the whole-history clauses are decided by the monitor on implementation traces plus the model/implementation correspondence, i.e. sampled — stated as such in DESIGN.md",
]
ASSUMPTIONS = [
    "documented exclusions only: enable() only of a disabled, not running source; a changed deadline/interest is followed by update(); Idle::cancel not from inside the idle itself",
    "logical time in ticks of 4 ms real time; a dispatch that straddles a tick boundary is re-run and, after 3 attempts, dropped and counted",
]


def run(res, tier, seed, search=False, have_drv=True):
    coreprop.run_property(res, PID, PROFILES, tier, seed, search, have_drv)
    composite_cases(res, tier, seed, have_drv)
    if res.violations:
        res.broken = []


def composite_cases(res, tier, seed, have_drv):
    """C01's sub-token clause on real composite sources with timer leaves and leaves that ask the token factory
    themselves (harness `vh tok`, query `composite`; C20's monitor): an event of one leaf reaches no other leaf."""
    import os
    import common as C
    from props import c20
    lines = [l for l in c20.gen_cases("quick", seed) if l.startswith("composite ")]
    impl, model = c20.run_both(lines, have_drv)
    mon = c20.Monitor()
    for i, (q, a) in enumerate(zip(lines, impl)):
        v = mon.check(q, a)
        if v:
            res.cov["impl_monitor_failures"] += 1
            if len(res.violations) < 3:
                d = C.write_replay(res.pid, {"case.tok": q + "\n", "impl.obs": a + "\n", "verdict.txt": v + "\n"})
                res.violations.append(("C01 on a real composite source: %s   [%s]" % (v, q), os.path.join(d, "case.tok")))
        elif model is not None and model[i] != a and not res.broken:
            res.broken.append("correspondence (composite sources): `%s`: impl `%s` vs model `%s`" % (q, a, model[i]))
    res.cov["composite_cases"] = len(lines)
    res.cov["evaluations"] = res.cov.get("evaluations", 0) + len(lines)


def replay(path):
    if path.endswith(".tok"):
        from props import c20
        q = open(path).read().strip()
        impl, _ = c20.run_both([q], False)
        v = c20.Monitor().check(q, impl[0])
        print(impl[0]); print("C01:", v)
        return 1 if v else 0
    return coreprop.replay(path, PID)
