"""C18 — TransientSource: exhaustive small-scope correspondence of the real wrapper against the
model, and Spec_C18 (lean/Verif/Spec/C18.lean, via `drv c18mon`) on the implementation's traces."""
import itertools
import os
import random

import common as C

LEAN_MODULES = ["Verif.Props.C18"]
TRUSTED_BASE = [
    "modelled, not verified: the child is an fd-backed source (Generic over an eventfd): ADD twice = EEXIST, MOD/DEL when absent = ENOENT, Generic::drop removes a still-registered fd; the harness children are real PingSources so the kernel answers for itself, and the kernel epoll table size is compared after every call",
    "Spec_C18 (lean/Verif/Spec/C18.lean) is the formal reading of the English property",
]
ASSUMPTIONS = [
    "protocol (WF) = parent register/unregister alternate, reregister only while registered, every change (child returns non-Continue, remove(), replace()) made while the parent is registered is followed by the parent's reregister — or by its unregister (the enclosing source was disabled or removed in the same turn) — before anything else, replacement children are fresh objects",
    "child sources do not fail on their own (only double registration / unregistration errors occur)",
]

ALPHABET = ["pe cont", "pe rereg", "pe disable", "pe remove", "remove", "replace", "register", "reregister",
            "unregister", "map"]


def render(init, seq):
    out = ["case " + init]
    nxt = 1
    for op in seq:
        if op == "replace":
            out.append("replace %d" % nxt)
            nxt += 1
        else:
            out.append(op)
    out.append("end")
    return out


def gen_cases(tier, seed, search):
    maxlen = 5 if tier == "quick" else 6
    cases = []
    for init in ("from 0", "default"):
        for n in range(0, maxlen + 1):
            for seq in itertools.product(ALPHABET, repeat=n):
                cases.append(render(init, seq))
    # random longer protocol-following and free sequences
    rnd = random.Random(seed)
    nrand = (3000 if tier == "quick" else 60000) * (10 if search else 1)
    for _ in range(nrand):
        n = rnd.randrange(maxlen + 1, 16)
        init = rnd.choice(["from 0", "from 0", "default"])
        if rnd.random() < 0.7:
            seq = protocol_walk(rnd, n, init)
        else:
            seq = [rnd.choice(ALPHABET + ["isnone"]) for _ in range(n)]
        cases.append(render(init, seq))
    return cases, maxlen


def protocol_walk(rnd, n, init):
    """A random sequence that follows the documented protocol (mirrors Spec_C18.protoOk)."""
    preg, dirty, seq = False, False, []
    holding, cur, enabled = (init != "default"), (init != "default"), True
    while len(seq) < n:
        if dirty and preg:
            op = "reregister" if rnd.random() < 0.75 else "unregister"
        else:
            opts = ["map", "isnone"]
            opts += ["register"] if not preg else ["unregister", "reregister", "pe cont", "pe cont", "pe rereg",
                                                   "pe disable", "pe remove"]
            opts += ["remove", "replace", "replace"]
            op = rnd.choice(opts)
        seq.append(op)
        if op == "register":
            preg, dirty, enabled = True, False, True
        elif op == "unregister":
            preg, dirty = False, False
        elif op == "reregister":
            dirty = False
        elif op.startswith("pe ") and preg and cur and enabled and op != "pe cont":
            dirty = True
            if op == "pe disable":
                enabled = False
            if op == "pe remove":
                cur = False
        elif op == "remove" and holding:
            cur, dirty = False, preg
        elif op == "replace" and holding:
            cur, enabled, dirty = True, True, preg
        if op in ("register", "reregister", "unregister") and not cur:
            holding = False
    return seq


def split_cases(lines):
    out, cur = [], None
    for l in lines:
        if l.startswith("case "):
            if cur is not None:
                out.append(cur)
            cur = [l]
        elif cur is not None:
            cur.append(l)
    if cur is not None:
        out.append(cur)
    return out


def run_all(cases, have_drv=True):
    text = "\n".join("\n".join(c) for c in cases) + "\n"
    rc, impl, err = C.run_vh("transient", text, timeout=3000)
    if rc != 0:
        raise RuntimeError("vh transient failed: " + err[-500:])
    impl_cases = split_cases(impl.splitlines())
    model_cases = None
    verdicts = None
    if have_drv:
        rc, model, err = C.run_drv("transient", text, timeout=3000)
        if rc != 0:
            raise RuntimeError("drv transient failed: " + err[-500:])
        model_cases = split_cases(model.splitlines())
        rc, ver, err = C.run_drv("c18mon", impl, timeout=3000)
        if rc != 0:
            raise RuntimeError("drv c18mon failed: " + err[-500:])
        verdicts = ver.splitlines()
    return impl_cases, model_cases, verdicts


def signature(verdict):
    # "bad <kind> disabled=<b> at=<n>"
    w = verdict.split()
    return "%s %s" % (w[1], w[2])


def run(res, tier, seed, search=False, have_drv=True):
    cases, maxlen = gen_cases(tier, seed, search)
    impl_cases, model_cases, verdicts = run_all(cases, have_drv)
    findings, fixed = C.load_known_findings(res.pid)
    known_sigs = {f["signature"]: f for f in findings}
    res.cov["evaluations"] = len(cases)
    res.cov["exhaustive"] = True
    res.cov["exhaustive_scope"] = "every sequence of length <= %d over %d wrapper operations, from From<T> and from Default" % (maxlen, len(ALPHABET))
    res.cov["rule"] = ("one evaluation = one operation sequence executed on the real TransientSource (children = real ping sources in a real "
                       "epoll) and on the model, all observation lines compared; judged by Spec_C18 on the implementation trace. "
                       "distinct_nontrivial = distinct sequences that follow the protocol and contain at least one registration call reaching a child")
    if len(impl_cases) != len(cases):
        res.broken.append("harness produced %d case traces for %d cases" % (len(impl_cases), len(cases)))
        return
    n_ok = n_out = n_bad = 0
    nontrivial = set()
    disagreements = []
    seen_known = {}
    for i, case in enumerate(cases):
        if model_cases is not None and impl_cases[i] != model_cases[i]:
            res.cov["model_impl_disagreements"] += 1
            if len(disagreements) < 3:
                disagreements.append(i)
        if verdicts is None:
            continue
        v = verdicts[i] if i < len(verdicts) else "missing"
        if v == "ok":
            n_ok += 1
            if any(l.startswith("reg ") for l in impl_cases[i]):
                nontrivial.add(tuple(case))
        elif v == "out":
            n_out += 1
        elif v.startswith("bad "):
            n_bad += 1
            res.cov["impl_monitor_failures"] += 1
            sig = signature(v)
            if sig in known_sigs:
                seen_known.setdefault(sig, case)
            elif len(res.violations) < 3:
                d = C.write_replay(res.pid, {
                    "case.ops": "\n".join(case) + "\n", "impl.obs": "\n".join(impl_cases[i]) + "\n",
                    "model.obs": "\n".join(model_cases[i]) + "\n" if model_cases else "-\n",
                    "verdict.txt": "Spec_C18 on the implementation trace: %s\n" % v})
                res.violations.append(("Spec_C18 rejects the real TransientSource's trace: %s   [ops: %s]" % (v, "; ".join(case[1:-1])),
                                       os.path.join(d, "case.ops")))
        else:
            res.broken.append("monitor output not understood for case %d: %r" % (i, v))
    res.cov["traces_validated_against_impl"] = len(cases) if model_cases is not None else 0
    res.cov["distinct_nontrivial"] = len(nontrivial)
    res.cov["verdicts"] = {"in_protocol_ok": n_ok, "out_of_protocol": n_out, "rejected": n_bad}
    res.cov["samples"] = [{"ops": cases[j], "impl_trace": impl_cases[j], "verdict": verdicts[j] if verdicts else None}
                          for j in (len(cases) // 7, len(cases) // 2, len(cases) - 1)]
    for sig, case in seen_known.items():
        f = known_sigs[sig]
        res.known.append("%s: %s [first seen on: %s]" % (f["id"], f["what_fails"], "; ".join(case[1:-1])))
        res.cov["known_findings_seen"].append(f["id"])
    for i in disagreements:
        d = C.write_replay(res.pid, {"case.ops": "\n".join(cases[i]) + "\n", "impl.obs": "\n".join(impl_cases[i]) + "\n",
                                      "model.obs": "\n".join(model_cases[i]) + "\n"}, tag="diff")
        if not res.violations:
            res.broken.append("correspondence: model and implementation disagree on `%s` (replay %s)" % ("; ".join(cases[i][1:-1]), d))


def replay(path):
    case = [l.strip() for l in open(path) if l.strip() and not l.startswith("#")]
    impl_cases, model_cases, verdicts = run_all([case])
    print("--- implementation\n" + "\n".join(impl_cases[0]))
    print("--- model\n" + "\n".join(model_cases[0]))
    print("--- Spec_C18 on the implementation trace: " + verdicts[0])
    return 0 if (verdicts[0] in ("ok", "out") and impl_cases[0] == model_cases[0]) else 1
