"""C11 — LoopSignal / run / block_on: controlled thread schedules of the real loop (vh runsched) against
SignalProto (drv runsched); C11's clauses on the implementation's traces."""
import concurrent.futures as cf
import os
import random

import common as C

LEAN_MODULES = ["Verif.Inv.SignalProto", "Verif.Props.C11"]
TRUSTED_BASE = [
    "modelled, not verified: Poller::notify per its documented contract (makes the current or the next wait return; sticky until a wait returns), AtomicBool stores/loads/swaps as sequentially consistent single steps",
    "the loop waits without timeout and no source fires (worst case for a lost wake-up); a loop thread blocked in the poller is recognised through its kernel state and runs on by itself once notified",
    "'promptly' is not timed: the clause checked is that the wait returns at all (the thread leaves the blocked state) once the wake-up has been issued",
]
ASSUMPTIONS = ["stop()/wakeup() are issued after run()/block_on() has begun (C11's premise); one block_on future"]


def case_text(name, mode, progs, sched, selfwake=0):
    out = ["case " + name, "mode " + mode] + (["selfwake %d" % selfwake] if selfwake else []) + ["threads %d" % len(progs)]
    for i, p in enumerate(progs):
        out.append("thread %d: %s" % (i + 1, p))
    out.append("sched " + " ".join(map(str, sched)))
    out.append("end")
    return out


WITNESSES = [
    case_text("wakeup_before_wait", "run", ["wakeup"], [0, 0, 1, 1, 0, 0, 0, 0, 0, 0]),
    case_text("stop_wakeup_while_waiting", "run", ["stop ; wakeup"], [0, 0, 0, 0, 1, 1, 1, 0, 0, 0, 0]),
    case_text("stop_between_check_and_wait", "run", ["stop ; wakeup"], [0, 0, 1, 1, 1, 0, 0, 0, 0, 0, 0]),
    case_text("wake_between_poll_and_wait", "blockon", ["complete ; wake"], [0, 0, 0, 0, 0, 1, 1, 0, 1, 0, 0, 0, 0, 0, 0, 0]),
    case_text("wake_store_then_wait_then_notify", "blockon", ["complete ; wake"], [0, 0, 0, 0, 0, 1, 0, 1, 1, 0, 0, 0, 0, 0, 0, 0]),
    case_text("blockon_stop_first", "blockon", ["stop ; wakeup"], [0, 0, 0, 0, 0, 0, 1, 1, 1, 0, 0, 0, 0]),
    # the wake lands while the future is being polled (the loop thread is parked inside poll): the poll returns
    # Pending, and the future must be polled again
    case_text("wake_during_poll", "blockon", ["wake"], [0, 0, 0, 0, 1, 1, 1, 0, 0, 0, 0, 0, 0, 0, 0, 0, 0, 0]),
    case_text("wake_store_during_poll_notify_later", "blockon", ["wake"], [0, 0, 0, 0, 1, 1, 0, 0, 1, 0, 0, 0, 0, 0, 0, 0, 0, 0, 0, 0]),
    # a future of the yield_now kind: it wakes itself inside poll and returns Pending
    # stop() and then a completing wake while the loop waits: block_on must return None, the future is not polled again
    case_text("stop_then_completing_wake_while_waiting", "blockon", ["stop ; complete ; wake"], [0] * 8 + [1] * 8 + [0] * 12),
    case_text("self_wake_twice", "blockon", ["complete"], [0] * 26 + [1] + [0] * 10, selfwake=2),
] + [
    # a future that wakes itself inside every poll, and a stop request that lands somewhere along the chain: block_on
    # goes through its stop check between two polls and returns None
    case_text("stop_along_self_wake_chain_%d" % k, "blockon", ["stop ; wakeup"], [0] * k + [1] * 8 + [0] * 60, selfwake=5)
    for k in (5, 7, 9, 11, 14, 18, 23)
]


def random_case(rnd, idx):
    mode = rnd.choice(["run", "run", "blockon"])
    n = rnd.randrange(1, 3)
    progs = []
    for _ in range(n):
        if mode == "run":
            ops = [rnd.choice(["stop", "wakeup", "wakeup"]) for _ in range(rnd.randrange(1, 4))]
        else:
            ops = [rnd.choice(["wake", "wake", "complete", "stop", "wakeup"]) for _ in range(rnd.randrange(1, 5))]
        progs.append(" ; ".join(ops))
    selfwake = rnd.choice([0, 0, 0, 1, 2]) if mode == "blockon" else 0
    total = 3 * sum(len(p.split(";")) for p in progs) + 12 + 9 * selfwake
    sched = []
    while len(sched) < total:
        sched += [rnd.randrange(0, n + 1)] * rnd.choice([1, 1, 2, 3])
    sched += [0] * 10
    return case_text("r%d" % idx, mode, progs, sched, selfwake)


def split_cases(lines):
    out, cur = [], None
    for l in lines:
        if l.startswith("case "):
            if cur is not None:
                out.append(cur)
            cur = [l]
        elif cur is not None:
            cur.append(l)
    if cur is not None:
        out.append(cur)
    return out


def spec_c11(case, trace):
    """C11's clauses, from the labels of the trace."""
    mode = case[1].split()[1]
    stop_done = wake_after_stop = False
    notif = False            # a wake-up / waker notify has been issued and no wait has returned since
    pending = {}             # thread -> what its next step completes
    loop_blocked = False
    started = False
    fready_stored = False    # block_on: a waker store not yet followed by a poll
    last_polls = 0
    need_sample, stop_at_iter_start = False, False
    polls_after_stop = 0
    steps = [l.split() for l in trace if l.startswith("step ")]
    for w in steps:
        t, label = int(w[1]), w[2]
        kv = dict(x.split("=") for x in w[3:])
        polls, result = int(kv["polls"]), kv["result"]
        # "returns None exactly when stop() was requested first": an iteration that begins after stop() has completed
        # must not poll the future
        if t == 0 and label != "skip" and need_sample:
            stop_at_iter_start, need_sample = stop_done, False
        if polls > last_polls and t == 0 and mode == "blockon" and stop_at_iter_start:
            return "stop() had completed before this iteration of block_on began, yet the future was polled again (it may complete: Some instead of None)"
        if t == 0 and label in ("run.reset", "run.iter_end"):
            need_sample = True
        if polls > last_polls and t == 0 and mode == "blockon" and stop_done:
            # after stop() has completed the iteration in progress may still poll the future — once; the next
            # iteration begins with the stop check
            polls_after_stop += 1
            if polls_after_stop >= 2:
                return ("stop() had completed, the future has been polled since, and is polled again: block_on did not go "
                        "through its stop check between two polls (a future that keeps waking itself outruns the stop request)")
        if polls > last_polls:
            fready_stored = False
        last_polls = polls
        if t == 0 and label != "skip":
            # the future waking itself inside poll: the loop thread passes the waker's own yield points
            prev0 = pending.pop(0, None)
            if prev0 == "bo.wake.store":
                fready_stored = True
            elif prev0 == "bo.wake.notify":
                notif = True
            if label.startswith("bo.wake."):
                pending[0] = label
        if t != 0:
            if label == "skip":
                continue
            # moving past a yield point completes the operation that was parked there
            prev = pending.pop(t, None)
            if prev == "sig.stop":
                stop_done = started or stop_done
            elif prev == "sig.wakeup":
                notif = True
                wake_after_stop = wake_after_stop or stop_done
            elif prev == "bo.wake.store":
                fready_stored = True
            elif prev == "bo.wake.notify":
                notif = True
            if label not in ("done",):
                pending[t] = label
        else:
            if label == "run.reset":
                started = True
            if label in ("loop.polled", "run.iter_end") and loop_blocked is False and label == "loop.polled":
                notif = False
            if label == "blocked":
                if notif:
                    return "a wake-up had been issued (and no wait had returned since) but the loop blocked in its wait"
                if fready_stored and not any(v == "bo.wake.notify" for v in pending.values()):
                    return ("the block_on waker was invoked (flag stored, notification sent) after the future's last poll began, and the "
                            "loop has gone back to sleep without polling the future again: the wake was lost")
                loop_blocked = True
            elif label != "skip":
                if loop_blocked:
                    notif = False          # it left the wait: the notification was consumed
                loop_blocked = False
            if label == "loop.polled":
                notif = False
            if label == "run.checked" and stop_done:
                return "the loop began another iteration although stop() had completed before the flag check"
            if result == "stopped" and not stop_done and not any(v == "sig.stop" for v in pending.values()):
                return "run()/block_on() reported a stop that nobody requested"
        if result == "some" and mode != "blockon":
            return "run() produced an output"
    # end of trace: stop + wakeup both completed => the loop must have returned (the trace gives it spare steps)
    if wake_after_stop and steps and steps[-1][1] == "0":
        final = dict(x.split("=") for x in steps[-1][3:])["result"]
        tail_loop_steps = 0
        for w in reversed(steps):
            if w[1] == "0":
                tail_loop_steps += 1
            else:
                break
        if final == "none" and tail_loop_steps >= 6:
            return "stop() and then wakeup() completed, the loop was given %d further steps and has not returned" % tail_loop_steps
    return None


def _chunk(args):
    cases, want_model = args
    text = "\n".join("\n".join(c) for c in cases) + "\n"
    rc, impl, err = C.run_vh("runsched", text, timeout=900)
    if rc != 0:
        return ("error", "vh runsched failed: " + err[-300:], None)
    model = None
    if want_model:
        rc, model, err = C.run_drv("runsched", text, timeout=900)
        if rc != 0:
            return ("error", "drv runsched failed: " + err[-300:], None)
        model = split_cases(model.splitlines())
    return ("ok", split_cases(impl.splitlines()), model)


def run_all(cases, have_drv=True, workers=16):
    n = len(cases)
    chunk = max(1, (n + workers * 3 - 1) // (workers * 3))
    jobs = [(cases[i:i + chunk], have_drv) for i in range(0, n, chunk)]
    impl, model = [], []
    with cf.ThreadPoolExecutor(max_workers=workers) as ex:
        for status, a, b in ex.map(_chunk, jobs):
            if status != "ok":
                raise RuntimeError(a)
            impl += a
            if have_drv:
                model += b
    return impl, (model if have_drv else None)


def run(res, tier, seed, search=False, have_drv=True):
    rnd = random.Random(seed)
    cases = list(WITNESSES) + C.load_case_corpus("C11", "sched")
    for i in range((250 if tier == "quick" else 8000) * (4 if search else 1)):
        cases.append(random_case(rnd, i))
    impl, model = run_all(cases, have_drv)
    res.cov["evaluations"] = len(cases)
    res.cov["exhaustive"] = False
    res.cov["rule"] = ("one evaluation = one thread schedule (threads issuing stop / wakeup / waker.wake / complete against a loop thread inside run(None) or "
                       "block_on) executed on the real EventLoop with every thread parked at its yield points, replayed in SignalProto and compared step by "
                       "step (label, iterations, polls of the future, result); judged by C11's clauses. distinct_nontrivial = distinct schedules in which "
                       "another thread's step falls between the loop's flag check and the return of its wait")
    nontrivial = set()
    modes = {}
    for i, c in enumerate(cases):
        modes[c[1]] = modes.get(c[1], 0) + 1
        window = False
        for l in impl[i]:
            w = l.split()
            if len(w) > 2 and w[0] == "step":
                if w[1] == "0" and w[2] in ("run.checked", "bo.swap", "loop.poll", "blocked"):
                    window = True
                elif w[1] == "0":
                    window = False
                elif window and w[2] not in ("skip", "done"):
                    nontrivial.add(tuple(c[1:]))
        v = spec_c11(c, impl[i])
        if v:
            res.cov["impl_monitor_failures"] += 1
            if len(res.violations) < 3:
                d = C.write_replay(res.pid, {"case.sched": "\n".join(c) + "\n", "impl.obs": "\n".join(impl[i]) + "\n",
                                              "model.obs": ("\n".join(model[i]) + "\n") if model else "-\n", "verdict.txt": v + "\n"})
                res.violations.append(("C11 on the real loop: %s   [%s]" % (v, " | ".join(c[1:-1])), os.path.join(d, "case.sched")))
        if model is not None and impl[i] != model[i]:
            res.cov["model_impl_disagreements"] += 1
            if res.cov["model_impl_disagreements"] == 1:
                first = next(((a, b) for a, b in zip(impl[i], model[i]) if a != b), ("<length>", "<length>"))
                d = C.write_replay(res.pid, {"case.sched": "\n".join(c) + "\n", "impl.obs": "\n".join(impl[i]) + "\n",
                                              "model.obs": "\n".join(model[i]) + "\n"}, tag="diff")
                res.broken.append("correspondence: real loop and SignalProto disagree on `%s`: impl `%s` vs model `%s` (replay %s)"
                                  % (" | ".join(c[1:-1]), first[0], first[1], os.path.join(d, "case.sched")))
    res.cov["distinct_nontrivial"] = len(nontrivial)
    res.cov["modes"] = modes
    res.cov["traces_validated_against_impl"] = len(cases) if model is not None else 0
    res.cov["samples"] = [{"case": cases[j], "impl_trace": impl[j][:14]} for j in (0, len(cases) // 2, len(cases) - 1)]
    # a wake-up must also end a wait that a timer limits (a miss must reproduce 3 times to count)
    tcases = timed_cases() * (1 if tier == "quick" else 4)
    ttraces = run_timed(tcases)
    res.cov["evaluations"] += len(tcases)
    res.cov["timed_wakeups"] = len(tcases)
    for c, tr in zip(tcases, ttraces):
        bad = judge_timed(c, tr)
        if bad and all(judge_timed(c, run_timed([c])[0]) for _ in range(2)):
            res.cov["impl_monitor_failures"] += 1
            if len(res.violations) < 3:
                d = C.write_replay(res.pid, {"case.timing": "\n".join(c) + "\n", "impl.obs": "\n".join(tr) + "\n",
                                              "verdict.txt": "\n".join(bad) + "\n(reproduced 3 times)\n"})
                res.violations.append(("C11 on the real loop: %s   [%s]" % (bad[0], " ; ".join(c[1:-1])), os.path.join(d, "case.timing")))
    if res.violations:
        res.broken = []


# --- wake-ups against a wait that a timer limits (wall clock; real threads) ------------------------------------

MS = 1_000_000
TIMED = [("none", ["400"], 50), ("600", ["400"], 50), ("none", ["300", "500"], 40), ("900", ["300"], 60),
         ("none", ["400 rearm 400"], 50)]


def timed_cases():
    out = []
    for i, (timeout, timers, waker) in enumerate(TIMED):
        out.append(["case w%d" % i, "timeout " + timeout] + ["timer " + x for x in timers] + ["waker %d" % waker, "end"])
    return out


def run_timed(cases):
    text = "\n".join("\n".join(c) for c in cases) + "\n"
    rc, out, err = C.run_vh("timing", text, timeout=600)
    if rc != 0:
        raise RuntimeError("vh timing failed: " + err[-300:])
    return split_cases(out.splitlines())


def judge_timed(case, trace):
    """LoopSignal::wakeup() from another thread `waker` ms into a dispatch whose wait is limited by a timer that is
    not due yet: the dispatch returns then (not when the timer fires), and the timer has not fired."""
    waker = next(int(l.split()[1]) for l in case if l.startswith("waker"))
    bad = []
    for l in trace:
        if not l.startswith("disp "):
            continue
        f = dict(x.split("=") for x in l.split()[2:])
        el, fired = int(f["elapsed"]), int(f["fired"])
        due = None if f["due"] == "none" else int(f["due"])
        if due is not None and due < (waker + 100) * MS:
            continue        # the timer itself is (nearly) due: nothing to tell apart
        if not ((waker - 2) * MS <= el <= (waker + 250) * MS) or fired:
            bad.append("dispatch %s: wakeup() came %d ms into a wait limited by a timer due in %s ns; the dispatch returned after %d ns, %d timer(s) fired"
                       % (l.split()[1], waker, f["due"], el, fired))
    return bad


def replay(path):
    if path.endswith(".timing"):
        case = [l.rstrip("\n") for l in open(path) if l.strip()]
        t = run_timed([case])[0]
        bad = judge_timed(case, t)
        print("\n".join(t))
        print("C11 (timed):", bad)
        return 1 if bad else 0
    case = [l.rstrip("\n") for l in open(path) if l.strip()]
    impl, model = run_all([case])
    v = spec_c11(case, impl[0])
    print("--- implementation\n" + "\n".join(impl[0]) + "\n--- model\n" + "\n".join(model[0]) + "\n--- C11 clauses: %s" % v)
    return 0 if (v is None and impl[0] == model[0]) else 1
