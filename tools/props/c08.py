"""C08 — single-threaded loop property: see tools/coreprop.py (shared check body), lean/Verif/Props/C08.lean
(theorems), lean/Verif/Spec/Core.lean (monitor clauses tagged C08)."""
import coreprop

PID = "C08"
LEAN_MODULES = ['Verif.Inv.LifeInv', 'Verif.Inv.OwnInv', 'Verif.Props.C08']
PROFILES = ['reentrant', 'all']
TRUSTED_BASE = [
    "modelled, not verified: Linux epoll as used by polling 3.x (registration table + FIFO ready list, level/edge/oneshot), eventfd counters, std mpsc as a FIFO queue (single-threaded view), BinaryHeap pop order among equal deadlines (histories use distinct deadlines), Rc/RefCell as reference counts and borrow flags — all in lean/Verif/Model/{Kernel,Wheel,Slots,Loop}.lean and exercised against the real kernel/crate by the correspondence",
    "Spec.Core (lean/Verif/Spec/Core.lean) is the formal reading of the English property; its clauses for this property are evaluated on the real loop's traces",
    "the theorems of this property are about the mechanism (components of the model); the whole-history clauses are decided by the monitor on implementation traces plus the model/implementation correspondence, i.e. sampled — stated as such in DESIGN.md",
]
ASSUMPTIONS = [
    "documented exclusions only: enable() only of a disabled, not running source; a changed deadline/interest is followed by update(); Idle::cancel not from inside the idle itself",
    "logical time in ticks of 4 ms real time; a dispatch that straddles a tick boundary is re-run and, after 3 attempts, dropped and counted",
]


def adapter_cases(res, have_drv):
    """C08: removing the executor while its task owns a parked adapter (dropping the future drops the adapter, whose Drop re-enters the loop) must not panic
    (real Async adapters on the calloop executor, harness `vh asyncio`, model `drv asyncio`)."""
    import os
    import common as C
    from props import c17
    n = 0
    for c in c17.REMOVE_EXEC:
        try:
            impl, model = c17.run_all([c], have_drv)
        except RuntimeError as ex:
            d = C.write_replay(res.pid, {"case.io": "\n".join(c) + "\n", "verdict.txt": "the harness process died on this case: %s\n" % str(ex)[:600]})
            res.violations.append(("%s: the process died while the loop dropped / refused an adapter   [%s]" % (PID, " ; ".join(c[1:])), os.path.join(d, "case.io")))
            res.cov["impl_monitor_failures"] += 1
            continue
        n += 1
        v = c17.spec_c17(c, impl[0])
        if v:
            d = C.write_replay(res.pid, {"case.io": "\n".join(c) + "\n", "impl.obs": "\n".join(impl[0]) + "\n", "verdict.txt": v + "\n"})
            res.violations.append(("%s on a real adapter: %s   [%s]" % (PID, v, " ; ".join(c[1:])), os.path.join(d, "case.io")))
            res.cov["impl_monitor_failures"] += 1
        elif model is not None and c17.comparable(c) and impl[0] != model[0]:
            res.broken.append("correspondence (adapter cases): real adapter and AsyncProto disagree on `%s`" % " ; ".join(c[1:]))
    res.cov["adapter_cases"] = n
    res.cov["evaluations"] = res.cov.get("evaluations", 0) + n


def executor_callback_cases(res, have_drv):
    """C08: "schedule on calloop's own handles from inside any callback completes without panic and has the effect it
    would have outside": the executor's own callback schedules the next task on the same executor (harness `vh execcb`,
    query `chain N`); every task must be delivered, in order, no panic."""
    import os
    import common as C
    from props import c10
    lines = ["chain %d" % n for n in (1, 2, 5, 40)]
    impl, model = c10.exec_cb_queries(lines, have_drv)
    for i, (q, a) in enumerate(zip(lines, impl)):
        n = int(q.split()[1])
        want = "chain %d delivered=[%s] panicked=0" % (n, ",".join(str(x) for x in range(n + 1)))
        v = None
        if "panicked=1" in a:
            v = "scheduling a task from inside the executor's own callback panicked (a borrow held across the callback?)"
        elif a != want:
            v = "tasks scheduled from inside the executor's callback: expected `%s`, got `%s`" % (want, a)
        if v:
            res.cov["impl_monitor_failures"] += 1
            if len(res.violations) < 3:
                d = C.write_replay(res.pid, {"case.execcb": q + "\n", "impl.obs": a + "\n", "verdict.txt": v + "\n"})
                res.violations.append(("C08 on the real executor: %s   [%s]" % (v, q), os.path.join(d, "case.execcb")))
        elif model is not None and model[i] != a and not res.broken:
            res.broken.append("correspondence (executor callback): `%s`: impl `%s` vs model `%s`" % (q, a, model[i]))
    res.cov["executor_callback_cases"] = len(lines)
    res.cov["evaluations"] = res.cov.get("evaluations", 0) + len(lines)


def run(res, tier, seed, search=False, have_drv=True):
    coreprop.run_property(res, PID, PROFILES, tier, seed, search, have_drv)
    adapter_cases(res, have_drv)
    executor_callback_cases(res, have_drv)
    if res.violations:
        res.broken = []


def replay(path):
    if path.endswith(".execcb"):
        from props import c10
        q = open(path).read().strip()
        impl, _ = c10.exec_cb_queries([q], False)
        n = int(q.split()[1])
        want = "chain %d delivered=[%s] panicked=0" % (n, ",".join(str(x) for x in range(n + 1)))
        print(impl[0])
        return 0 if impl[0] == want else 1
    case = [l.rstrip("\n") for l in open(path) if l.strip()]
    if len(case) > 1 and case[1].startswith("mode "):
        from props import c17
        return c17.replay(path)
    return coreprop.replay(path, PID)
