"""C04 — channel: controlled thread schedules of the real channel()/sync_channel(n) (vh chansched) against
ChanProto (drv chansched); the delivered sequence, the kernel eventfd counter and the registration are
compared after every scheduling step; the C04 clauses are evaluated on the implementation's traces."""
import concurrent.futures as cf
import os
import random

import common as C

LEAN_MODULES = ["Verif.Props.C04"]
TRUSTED_BASE = [
    "modelled, not verified: std::sync::mpsc as a linearizable FIFO (try_recv = Empty vs Disconnected only when empty and every sender is gone; a bounded queue refuses a push when full; a rendezvous channel hands over only to a sender already blocked in send); eventfd as an atomic counter; the Sender/SyncSender field order (queue handle dropped before the ping-on-drop) is read off the trace (efd.ping of a drop comes after the queue handle is gone)",
    "thread interleavings at the granularity of the --cfg calloop_verif yield points (chan.send, chan.try_send, chan.sync_block, efd.ping, efd.written, efd.drain, chan.recv, loop.poll, loop.polled); a thread inside a blocking send is detected through its kernel state (/proc task stat + wchan) and runs on by itself once released",
]
ASSUMPTIONS = ["the channel stays in the loop (C04's premise)", "at most one sender thread uses the blocking send of a bounded channel at a time in generated schedules (which blocked sender mpsc wakes first is unspecified)"]


def case_text(name, cap, progs, nd, sched):
    out = ["case " + name, "chan async" if cap is None else "chan sync %d" % cap, "senders %d" % len(progs)]
    for i, p in enumerate(progs):
        out.append("prog %d: %s" % (i + 1, p))
    out.append("loop: " + " ; ".join(["dispatch"] * nd))
    out.append("sched " + " ".join(map(str, sched)))
    out.append("end")
    return out


def random_case(rnd, idx, sync_ratio):
    cap = None if rnd.random() > sync_ratio else rnd.choice([0, 1, 1, 2])
    n = rnd.randrange(1, 4)
    progs, val = [], 10
    blocking_used = False
    for t in range(n):
        ops, handles = [], 1
        for _ in range(rnd.randrange(1, 4)):
            kinds = ["send", "send", "clone", "drop"] if cap is None else ["trysend", "trysend", "send", "clone", "drop"]
            o = rnd.choice(kinds)
            if o == "send" and cap is not None:
                if blocking_used:
                    o = "trysend"
                else:
                    blocking_used = True
            if handles == 0:
                break
            if o in ("send", "trysend"):
                val += 1
                ops.append("%s %d" % (o, val))
            else:
                ops.append(o)
                handles += 1 if o == "clone" else -1
        if rnd.random() < 0.7:
            ops += ["drop"] * handles
        progs.append(" ; ".join(ops) if ops else "drop")
    nd = rnd.randrange(1, 5)
    total = sum(4 * len(p.split(";")) for p in progs) + 6 * nd + 6
    length = rnd.randrange(total // 2, total + 8)
    if rnd.random() < 0.5:
        sched = [rnd.randrange(0, n + 1) for _ in range(length)]
    else:
        # bursts: one thread runs several steps in a row (coarser interleavings reach "whole drain between two
        # steps of a sender")
        sched = []
        while len(sched) < length:
            sched += [rnd.randrange(0, n + 1)] * rnd.choice([1, 2, 3, 4, 5, 6])
    # the loop always gets a quiet tail: enough steps for two complete dispatches after everyone else is done
    sched += list(range(1, n + 1)) * 6 + [0] * 12
    return case_text("r%d" % idx, cap, progs, nd + 2, sched)


WITNESSES = [
    # F9: sync_channel(0): Full -> ping -> loop drains and sees Empty -> sender blocks for good
    case_text("f9_rendezvous_lost_wake", 0, ["send 7"], 4, [1, 1, 1, 1, 0, 0, 0, 0, 0, 1, 0, 0, 0, 0, 0, 0, 1, 0, 0, 0, 1]),
    # Closed after the last sender drops, with a message still queued
    case_text("closed_after_queue", None, ["send 1 ; drop", "drop"], 3, [2, 2, 2, 1, 1, 1, 1, 1, 1, 1, 0, 0, 0, 0, 0, 0, 0, 0, 0, 0, 0, 0]),
    # a whole dispatch between a sender's wake write and its last step (the message must already be queued)
    case_text("drain_between_wake_and_return", None, ["send 5"], 4, [1, 1, 1, 0, 0, 0, 0, 0, 0, 1, 1, 0, 0, 0, 0, 0, 0, 0, 0]),
    # the same around a sender drop (the queue handle must already be gone when the drop pings)
    case_text("drain_between_drop_ping_and_return", None, ["drop"], 4, [1, 1, 0, 0, 0, 0, 0, 0, 1, 1, 0, 0, 0, 0, 0, 0, 0, 0]),
    # bounded channel: blocking send completes once the loop drained
    case_text("sync1_blocking_send", 1, ["trysend 1 ; send 2"], 3, [1, 1, 1, 1, 1, 1, 1, 1, 1, 0, 0, 0, 0, 0, 1, 1, 1, 0, 0, 0, 0, 0, 0, 0, 0]),
]


def race_text(name, cap, progs, rounds):
    out = ["case " + name, "chan async" if cap is None else "chan sync %d" % cap, "senders %d" % len(progs)]
    for i, p in enumerate(progs):
        out.append("prog %d: %s" % (i + 1, p))
    return out + ["race %d" % rounds, "end"]


# uncontrolled runs (real races): where the outcome depends on who wins inside std's blocking send, which no
# yield point can decide.  End states only; they support the search, they are not compared with the model.
RACES = [
    ("race_sync1_blocked_send", 1, ["trysend 1 ; send 2"]),
    ("race_sync2_blocked_send_then_drop", 2, ["trysend 1 ; trysend 2 ; send 3 ; drop", "drop"]),
    ("race_sync1_two_senders", 1, ["send 1 ; send 2 ; drop", "trysend 3 ; drop"]),
    ("race_async_burst", None, ["send 1 ; send 2 ; send 3 ; drop", "send 11 ; send 12 ; drop"]),
]


def spec_race(case, line):
    """end-state clauses of one uncontrolled run -> None | (kind, reason); kind 'lost' = a successfully sent message
    (or the close) never reached the callback although the loop went on dispatching"""
    cap = None
    prog_vals, handles_left = {}, 0
    for l in case:
        w = l.split()
        if w[0] == "chan":
            cap = None if w[1] == "async" else int(w[2])
        if w[0] == "prog":
            ops = [x.split() for x in l.split(":", 1)[1].split(";") if x.split()]
            prog_vals[int(w[1].rstrip(":"))] = [int(o[1]) for o in ops if o[0] in ("send", "trysend")]
            h = 1
            for o in ops:
                if o[0] == "clone" and h > 0:
                    h += 1
                elif o[0] == "drop" and h > 0:
                    h -= 1
            handles_left += h
    nthreads = len(prog_vals)
    fin = int(line.split("finished=")[1].split()[0])
    items = [x for x in line.split("delivered=[")[1].split("]")[0].split(",") if x]
    res = [r.split() for r in line.split("results=[")[1].rstrip("]").split(";") if r.split()]
    sent_ok = [int(r[2]) for r in res if len(r) == 4 and r[3] == "ok"]
    msgs = [int(x) for x in items if x != "closed"]
    if "closed" in items and items[-1] != "closed":
        return ("order", "a message was delivered after Closed: %s" % items)
    if items.count("closed") > 1:
        return ("order", "Closed delivered twice")
    if len(set(msgs)) != len(msgs):
        return ("order", "a message was delivered twice: %s" % items)
    for tid, vals in prog_vals.items():
        sub = [m for m in msgs if m in vals]
        if sub != [v for v in vals if v in sub]:
            return ("order", "messages of sender %d delivered out of order: %s" % (tid, items))
    if [m for m in msgs if m not in sent_ok]:
        return ("order", "a message was delivered that no send reported as sent: %s vs %s" % (msgs, sent_ok))
    if fin == nthreads:
        left = [m for m in sent_ok if m not in msgs]
        if left:
            return ("lost", "message %s was sent successfully, every sender finished and the loop kept dispatching until it was quiet, "
                            "but the message was never delivered" % left)
        if handles_left == 0 and "closed" not in items:
            return ("lost", "every sender handle is gone and the loop kept dispatching until it was quiet, but Closed was never delivered")
    elif cap == 0:
        return ("F9", "a sender is still blocked in send() on the rendezvous channel while the loop idles")
    else:
        return ("lost", "a sender never returned from send() although the loop kept dispatching")
    return None


def run_races(rounds):
    """-> list of (case, line, verdict)"""
    cases = [race_text(n, cap, progs, rounds) for n, cap, progs in RACES]
    text = "\n".join("\n".join(c) for c in cases) + "\n"
    rc, out, err = C.run_vh("chansched", text, timeout=1200)
    if rc != 0:
        raise RuntimeError("vh chansched (race) failed: " + err[-300:])
    res = []
    for c, t in zip(cases, split_cases(out.splitlines())):
        for l in t:
            if l.startswith("race "):
                res.append((c, l, spec_race(c, l)))
    return res


def split_cases(lines):
    out, cur = [], None
    for l in lines:
        if l.startswith("case "):
            if cur is not None:
                out.append(cur)
            cur = [l]
        elif cur is not None:
            cur.append(l)
    if cur is not None:
        out.append(cur)
    return out


def canon(trace):
    """Compare up to the first step at which the channel has left the loop (what its handles do afterwards,
    e.g. the ping's close write once every clone is gone, is outside the property)."""
    out = []
    for l in trace:
        if l.startswith("final"):
            continue
        if l.endswith("reg=0"):
            # the step that removes the channel may also drop its last ping handle (a close write): label not compared
            w = l.split()
            out.append(" ".join(w[:2] + ["*"] + w[3:]))
            break
        out.append(l)
    return out


def spec_c04(case, trace):
    """C04's clauses on one implementation trace -> None | reason | ('F9', reason)."""
    sent_ok, prog_vals = [], {}
    cap = None
    for l in case:
        w = l.split()
        if w[0] == "chan":
            cap = None if w[1] == "async" else int(w[2])
        if w[0] == "prog":
            prog_vals[int(w[1].rstrip(":"))] = [int(x.split()[1]) for x in l.split(":", 1)[1].split(";") if x.split() and x.split()[0] in ("send", "trysend")]
    last, blocked_since, loop_idle_polls = None, {}, 0
    sent_ok = set()
    for l in trace:
        if l.startswith("final results=["):
            for r in l[len("final results=["):-1].split(";"):
                f = r.split()
                if len(f) == 4 and f[3] == "ok":
                    sent_ok.add(int(f[2]))
    done = set()
    nthreads = len(prog_vals)
    handles_left = 0
    for l in case:
        if l.startswith("prog "):
            ops = [x.split()[0] for x in l.split(":", 1)[1].split(";") if x.split()]
            h = 1
            for o in ops:
                if o == "clone" and h > 0:
                    h += 1
                elif o == "drop" and h > 0:
                    h -= 1
            handles_left += h
    # finding F9's signature: the sender had written its ping and was about to block, and the loop tried to receive
    # (and found the rendezvous queue empty) before the sender got as far as blocking
    pinged, recv_before_block = set(), set()
    drain_mark = None
    for l in trace:
        w = l.split()
        if w[0] != "step":
            continue
        t, label = int(w[1]), w[2]
        if t != 0 and label == "efd.written":
            pinged.add(t)
        if t == 0 and label == "chan.recv":
            recv_before_block |= {u for u in pinged if u not in blocked_since}
        # the loop processed the channel (it drained the eventfd) while a sender was already blocked in send(): the queue
        # is full (or the rendezvous partner is waiting), so this dispatch delivers something
        if t == 0 and label == "efd.drain":
            drain_mark = (set(blocked_since), len(last or []))
        if t == 0 and label == "loop.poll" and drain_mark is not None:
            was_blocked, ndeliv = drain_mark
            drain_mark = None
            still = [u for u in was_blocked if u in blocked_since]
            if still and len(last or []) == ndeliv:
                return ("the loop processed the channel while sender %s was blocked in send() and delivered nothing "
                        "(the queue was full / the rendezvous partner was waiting)" % still)
        deliv = l.split("delivered=[")[1].split("]")[0]
        items = [x for x in deliv.split(",") if x]
        if "closed" in items and items[-1] != "closed":
            return "a message was delivered after Closed: %s" % deliv
        if items.count("closed") > 1:
            return "Closed delivered twice"
        msgs = [int(x) for x in items if x != "closed"]
        if len(set(msgs)) != len(msgs):
            return "a message was delivered twice: %s" % deliv
        for tid, vals in prog_vals.items():
            sub = [m for m in msgs if m in vals]
            if sub != [v for v in vals if v in sub]:
                return "messages of sender %d delivered out of order: %s" % (tid, deliv)
        if last is not None and msgs[:len(last)] != last:
            return "the delivered sequence changed retroactively"
        last = msgs
        if label in ("done", "skip") and t != 0:
            # "skip": the thread had already finished (e.g. it ran to its end by itself once a blocking send let it go)
            done.add(t)
        # every sender has finished, the eventfd is not readable and the loop finds nothing: whatever was
        # sent successfully must have been delivered by now
        if t == 0 and label == "loop.polled" and w[3] == "counter=0" and len(done) == nthreads:
            left = [m for m in sent_ok if m not in msgs]
            if left:
                return "message %s was sent successfully but is left queued with no wake-up pending (every sender done, eventfd counter 0, loop idle)" % left
            if handles_left == 0 and "closed" not in items:
                return "every sender handle is gone and the loop idles with the eventfd counter at 0, but Closed was never delivered"

        if label == "blocked":
            blocked_since.setdefault(t, set(prog_vals.get(t, [])) - set(msgs))
        elif t in blocked_since and label != "skip":
            del blocked_since[t]
        # a blocked sender whose message has been delivered has been released (it runs on by itself)
        for u in list(blocked_since):
            if blocked_since[u] & set(msgs):
                del blocked_since[u]
        # a sender blocked in send while the loop completes whole dispatches that find nothing: no progress possible
        if t == 0 and label == "loop.polled" and blocked_since and w[3] == "counter=0":
            loop_idle_polls += 1
            if loop_idle_polls >= 2:
                why = "a sender is blocked in send() while the loop keeps dispatching with nothing to wake it (eventfd counter 0)"
                return ("F9", why) if cap == 0 and all(u in recv_before_block for u in blocked_since) else why
    return None


def _chunk(args):
    cases, want_model = args
    text = "\n".join("\n".join(c) for c in cases) + "\n"
    rc, impl, err = C.run_vh("chansched", text, timeout=900)
    if rc != 0:
        return ("error", "vh chansched failed: " + err[-300:], None)
    model = None
    if want_model:
        rc, model, err = C.run_drv("chansched", text, timeout=900)
        if rc != 0:
            return ("error", "drv chansched failed: " + err[-300:], None)
        model = split_cases(model.splitlines())
    return ("ok", split_cases(impl.splitlines()), model)


def run_all(cases, have_drv=True, workers=16):
    n = len(cases)
    chunk = max(1, (n + workers * 3 - 1) // (workers * 3))
    jobs = [(cases[i:i + chunk], have_drv) for i in range(0, n, chunk)]
    impl, model = [], []
    with cf.ThreadPoolExecutor(max_workers=workers) as ex:
        for status, a, b in ex.map(_chunk, jobs):
            if status != "ok":
                raise RuntimeError(a)
            impl += a
            if have_drv:
                model += b
    return impl, (model if have_drv else None)


def run(res, tier, seed, search=False, have_drv=True):
    rnd = random.Random(seed)
    findings, _ = C.load_known_findings(res.pid)
    cases = list(WITNESSES) + C.load_case_corpus("C04", "sched")
    nrand = (300 if tier == "quick" else 12000) * (4 if search else 1)
    for i in range(nrand):
        cases.append(random_case(rnd, i, 0.25))
    impl, model = run_all(cases, have_drv)
    res.cov["evaluations"] = len(cases)
    res.cov["exhaustive"] = False
    res.cov["rule"] = ("one evaluation = one thread schedule (sender programs of send/try_send/clone/drop over channel() or sync_channel(0|1|2), "
                       "a dispatching loop thread) executed on the real crate with every thread parked at its yield points, replayed in ChanProto, "
                       "compared step by step (label, eventfd counter from /proc, delivered sequence incl. Closed, registration) and judged by the "
                       "C04 clauses (exactly once, per-sender order, one Closed last, no sender blocked while the loop idles). distinct_nontrivial = "
                       "distinct schedules in which a sender step falls between the loop's poll and the end of its drain")
    nontrivial = set()
    kinds = {}
    f9_seen = None
    for i, c in enumerate(cases):
        t = impl[i]
        kinds[c[1]] = kinds.get(c[1], 0) + 1
        inpoll = False
        for l in t:
            w = l.split()
            if len(w) > 2 and w[0] == "step":
                if w[1] == "0" and w[2] in ("loop.polled", "efd.drain", "chan.recv"):
                    inpoll = True
                elif w[1] == "0":
                    inpoll = False
                elif inpoll and w[2] not in ("skip", "done"):
                    nontrivial.add(tuple(c[1:]))
        verdict = spec_c04(c, t)
        if isinstance(verdict, tuple):
            f9_seen = f9_seen or (c, verdict[1])
            res.cov["impl_monitor_failures"] += 1
        elif verdict:
            res.cov["impl_monitor_failures"] += 1
            if len(res.violations) < 3:
                d = C.write_replay(res.pid, {"case.sched": "\n".join(c) + "\n", "impl.obs": "\n".join(t) + "\n",
                                              "model.obs": ("\n".join(model[i]) + "\n") if model else "-\n", "verdict.txt": verdict + "\n"})
                res.violations.append(("C04 on the real channel: %s   [%s]" % (verdict, " | ".join(c[1:-1])), os.path.join(d, "case.sched")))
        if model is not None and canon(t) != canon(model[i]):
            res.cov["model_impl_disagreements"] += 1
            if res.cov["model_impl_disagreements"] == 1:
                a, b = canon(t), canon(model[i])
                first = next(((x, y) for x, y in zip(a, b) if x != y), ("<length %d>" % len(a), "<length %d>" % len(b)))
                d = C.write_replay(res.pid, {"case.sched": "\n".join(c) + "\n", "impl.obs": "\n".join(t) + "\n",
                                              "model.obs": "\n".join(model[i]) + "\n"}, tag="diff")
                res.broken.append("correspondence: real channel and ChanProto disagree on `%s`: impl `%s` vs model `%s` (replay %s)"
                                  % (" | ".join(c[1:-1]), first[0], first[1], os.path.join(d, "case.sched")))
    # single-threaded, more queued than one drain may take (the budget is capped at 1024 whatever the bound)
    import coresuite
    big = [l.rstrip("\n") for l in open(os.path.join(C.ROOT, "corpus", "core", "c04_bounded_over_budget.ops")) if l.strip() and not l.startswith("#")]
    bimpl, bmodel, _ = coresuite.run_cases([big], want_model=have_drv, workers=1)
    got = [int(l.split()[3]) for l in bimpl[0] if l.startswith("cb 1 msg ")]
    res.cov["over_budget_case"] = "sync_channel(1100), 1030 queued, 3 dispatches: delivered %d" % len(got)
    if got != list(range(1, 1031)):
        d = C.write_replay(res.pid, {"case.ops": "\n".join(big) + "\n", "verdict.txt": "delivered %d of 1030 messages in order: %s…\n" % (len(got), got[:5])})
        res.violations.append(("C04 on the real channel: sync_channel(1100) with 1030 messages queued before the first dispatch: after three "
                               "dispatches %d were delivered (the drain budget is 1024; the rest needs the channel to wake itself)" % len(got),
                               os.path.join(d, "case.ops")))
        res.cov["impl_monitor_failures"] += 1
    elif bmodel is not None and [l for l in bimpl[0] if l.startswith("cb ")] != [l for l in bmodel[0] if l.startswith("cb ")]:
        res.broken.append("correspondence: the over-budget case delivers differently in model and implementation")
    races = run_races(4 if tier == "quick" else 40)
    res.cov["uncontrolled_race_runs"] = len(races)
    for c, l, v in races:
        if v and v[0] != "F9":
            res.cov["impl_monitor_failures"] += 1
            if len(res.violations) < 3:
                d = C.write_replay(res.pid, {"case.sched": "\n".join(c) + "\n", "impl.obs": l + "\n", "model.obs": "-\n",
                                              "verdict.txt": v[1] + "\n(uncontrolled run: the outcome depends on a real race inside std's blocking send; "
                                                             "replaying runs the same programs again, several rounds)\n"})
                res.violations.append(("C04 on the real channel (uncontrolled threads): %s   [%s]" % (v[1], " | ".join(c[1:-1])), os.path.join(d, "case.sched")))
    res.cov["distinct_nontrivial"] = len(nontrivial)
    res.cov["channel_kinds"] = kinds
    res.cov["traces_validated_against_impl"] = len(cases) if model is not None else 0
    res.cov["samples"] = [{"case": cases[j], "impl_trace": impl[j][:14]} for j in (0, len(cases) // 2, len(cases) - 1)]
    if f9_seen:
        f = next((x for x in findings if x["id"].startswith("F9")), None)
        if f:
            res.known.append("%s: %s [schedule: %s]" % (f["id"], f["what_fails"], " | ".join(f9_seen[0][1:-1])))
            res.cov["known_findings_seen"].append(f["id"])
        else:
            d = C.write_replay(res.pid, {"case.sched": "\n".join(f9_seen[0]) + "\n", "verdict.txt": f9_seen[1] + "\n"})
            res.violations.append((f9_seen[1], os.path.join(d, "case.sched")))
    if res.violations:
        res.broken = []


def replay(path):
    case = [l.rstrip("\n") for l in open(path) if l.strip()]
    if any(l.startswith("new ") for l in case):
        import coreprop
        return coreprop.replay(path, "C02")
    if any(l.startswith("race ") for l in case):
        rc, out, err = C.run_vh("chansched", "\n".join(case) + "\n", timeout=600)
        bad = 0
        for l in out.splitlines():
            if l.startswith("race "):
                v = spec_race(case, l)
                print(l, "->", v)
                bad += 1 if (v and v[0] != "F9") else 0
        return 1 if bad else 0
    impl, model = run_all([case])
    v = spec_c04(case, impl[0])
    print("--- implementation\n" + "\n".join(impl[0]) + "\n--- model\n" + "\n".join(model[0]) + "\n--- C04 clauses: %s" % (v,))
    return 0 if (v is None and canon(impl[0]) == canon(model[0])) else 1
