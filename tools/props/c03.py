"""C03 — ping: controlled thread schedules of the real Ping/PingSource (vh pingsched) against PingProto
(drv pingsched), exhaustively for small configurations and randomly for larger ones; Spec_C03
(drv c03mon) on the implementation's traces."""
import concurrent.futures as cf
import os
import random

import common as C

LEAN_MODULES = ["Verif.Props.C03"]
TRUSTED_BASE = [
    "modelled, not verified: eventfd = a 64-bit counter, write adds atomically, read returns and zeroes it atomically (the 2^64-2 cap is not reached); level-triggered epoll reports the fd while the counter is non-zero; Arc strong count of FlagOnDrop = number of live Ping clones",
    "thread interleavings are at the granularity of the yield points of --cfg calloop_verif (before/after each eventfd write, before the drain read, before/after the poller wait); the LTS is finer (drain, callback and post action are separate steps)",
    "Spec_C03 (lean/Verif/Spec/C03.lean) is the observable reading used on implementation traces",
]
ASSUMPTIONS = ["the source stays inserted and enabled until its handles are gone (C03's own premise)",
               "fewer than 2^63 pings between two drains (eventfd counter cap)"]

CONFIGS_QUICK = [
    ("e1", 1, ["ping ; drop"], 2),
    ("e2", 1, ["ping ; ping ; drop"], 1),
    ("e3", 2, ["ping", "drop"], 1),
]
CONFIGS_THOROUGH = CONFIGS_QUICK + [
    ("e4", 2, ["ping ; drop", "ping ; drop"], 2),
    ("e5", 2, ["clone ; ping ; drop ; drop", "ping"], 2),
]


def case_text(name, n, progs, ndisp, sched=None):
    out = ["case " + name, "pingers %d" % n]
    for i, p in enumerate(progs):
        out.append("prog %d: %s" % (i + 1, p))
    out.append("loop: " + " ; ".join(["dispatch"] * ndisp))
    if sched is not None:
        out.append("sched " + " ".join(map(str, sched)))
        out.append("end")
    return out


def enumerate_schedules(cfg, limit):
    name, n, progs, nd = cfg
    text = "\n".join(case_text(name, n, progs, nd) + ["end"]) + "\n"
    rc, out, err = C.run_drv("pingenum", text, args=[str(limit)], timeout=1800)
    if rc != 0:
        raise RuntimeError("drv pingenum failed: " + err[-300:])
    return [[int(x) for x in l.split()[1:]] for l in out.splitlines() if l.startswith("sched")]


def random_case(rnd, idx):
    n = rnd.randrange(1, 4)
    progs = []
    for _ in range(n):
        ops, handles = [], 1
        for _ in range(rnd.randrange(1, 5)):
            o = rnd.choice(["ping", "ping", "ping", "clone", "drop"])
            if o == "drop" and handles == 0:
                o = "ping"
            if o == "ping" and handles == 0:
                continue
            handles += {"clone": 1, "drop": -1}.get(o, 0)
            ops.append(o)
        ops += ["drop"] * handles if rnd.random() < 0.7 else []
        progs.append(" ; ".join(ops) if ops else "ping")
    nd = rnd.randrange(1, 5)
    total = sum(4 * len(p.split(";")) for p in progs) + 5 * nd + 4
    sched = [rnd.randrange(0, n + 1) for _ in range(rnd.randrange(total // 2, total + 6))]
    return case_text("r%d" % idx, n, progs, nd, sched)


def split_cases(lines):
    out, cur = [], None
    for l in lines:
        if l.startswith("case "):
            if cur is not None:
                out.append(cur)
            cur = [l]
        elif cur is not None:
            cur.append(l)
    if cur is not None:
        out.append(cur)
    return out


def _chunk(args):
    cases, want_model = args
    text = "\n".join("\n".join(c) for c in cases) + "\n"
    rc, impl, err = C.run_vh("pingsched", text, timeout=1800)
    if rc != 0:
        return ("error", "vh pingsched failed: " + err[-300:], None, None)
    model = ver = None
    if want_model:
        rc, model, err = C.run_drv("pingsched", text, timeout=1800)
        if rc != 0:
            return ("error", "drv pingsched failed: " + err[-300:], None, None)
        rc, ver, err = C.run_drv("c03mon", impl, timeout=1800)
        if rc != 0:
            return ("error", "drv c03mon failed: " + err[-300:], None, None)
        model, ver = split_cases(model.splitlines()), ver.splitlines()
    return ("ok", split_cases(impl.splitlines()), model, ver)


def run_all(cases, have_drv=True, workers=16):
    n = len(cases)
    chunk = max(1, (n + workers * 2 - 1) // (workers * 2))
    jobs = [(cases[i:i + chunk], have_drv) for i in range(0, n, chunk)]
    impl, model, ver = [], [], []
    with cf.ThreadPoolExecutor(max_workers=workers) as ex:
        for status, a, b, c in ex.map(_chunk, jobs):
            if status != "ok":
                raise RuntimeError(a)
            impl += a
            if have_drv:
                model += b
                ver += c
    return impl, (model if have_drv else None), (ver if have_drv else None)


def run(res, tier, seed, search=False, have_drv=True):
    rnd = random.Random(seed)
    cases, exhaustive_counts = C.load_case_corpus("C03", "sched"), {}
    if have_drv:
        for cfg in (CONFIGS_QUICK if tier == "quick" else CONFIGS_THOROUGH):
            scheds = enumerate_schedules(cfg, 3000 if tier == "quick" else 400000)
            exhaustive_counts[cfg[0]] = len(scheds)
            for j, sc in enumerate(scheds):
                cases.append(case_text("%s_%d" % (cfg[0], j), cfg[1], cfg[2], cfg[3], sc))
    nrand = (400 if tier == "quick" else 20000) * (5 if search else 1)
    for i in range(nrand):
        cases.append(random_case(rnd, i))
    impl, model, ver = run_all(cases, have_drv)
    res.cov["evaluations"] = len(cases)
    res.cov["exhaustive"] = bool(exhaustive_counts)
    res.cov["exhaustive_schedules"] = exhaustive_counts
    res.cov["rule"] = ("one evaluation = one thread schedule (pinger programs of ping/clone/drop, a dispatching loop thread) executed on the real "
                       "Ping/PingSource with every thread parked at the crate's yield points, and replayed in PingProto; per step the yield label, "
                       "the eventfd counter (read from /proc fdinfo), the callback count and the registration are compared, and Spec_C03 judges the "
                       "implementation trace. distinct_nontrivial = distinct schedules in which a pinger step and a loop step alternate at least once "
                       "while a ping is in flight (between efd.ping and the drain)")
    nontrivial = set()
    for c, t in zip(cases, impl):
        inflight, crossed = False, False
        for l in t:
            w = l.split()
            if len(w) > 2 and w[0] == "step":
                if w[2] == "efd.ping":
                    inflight = True
                if inflight and w[1] == "0" and w[2] in ("loop.polled", "efd.drain"):
                    crossed = True
        if crossed:
            nontrivial.add(tuple(c[1:]))
    res.cov["distinct_nontrivial"] = len(nontrivial)
    res.cov["traces_validated_against_impl"] = len(cases) if model is not None else 0
    res.cov["samples"] = [{"case": cases[j], "impl_trace": impl[j][:12]} for j in (0, len(cases) // 2, len(cases) - 1)]
    for i, c in enumerate(cases):
        if ver is not None and i < len(ver) and ver[i] != "ok":
            res.cov["impl_monitor_failures"] += 1
            if len(res.violations) < 3:
                d = C.write_replay(res.pid, {"case.sched": "\n".join(c) + "\n", "impl.obs": "\n".join(impl[i]) + "\n",
                                              "model.obs": "\n".join(model[i]) + "\n", "verdict.txt": ver[i] + "\n"})
                res.violations.append(("Spec_C03 on the real ping source: %s   [%s]" % (ver[i], " | ".join(c[1:-1])),
                                       os.path.join(d, "case.sched")))
        if model is not None and impl[i] != model[i]:
            res.cov["model_impl_disagreements"] += 1
            if res.cov["model_impl_disagreements"] == 1:
                d = C.write_replay(res.pid, {"case.sched": "\n".join(c) + "\n", "impl.obs": "\n".join(impl[i]) + "\n",
                                              "model.obs": "\n".join(model[i]) + "\n"}, tag="diff")
                first = next(((a, b) for a, b in zip(impl[i], model[i]) if a != b), ("<length>", "<length>"))
                res.broken.append("correspondence: real ping source and PingProto disagree on schedule `%s`: impl `%s` vs model `%s` (replay %s)"
                                  % (" | ".join(c[1:-1]), first[0], first[1], os.path.join(d, "case.sched")))
    # uncontrolled runs: the handles' last operations issued at the same moment from several threads
    single_threaded(res, tier, seed, have_drv)
    for c, l, v in run_races(150 if tier == "quick" else 2000):
        res.cov["evaluations"] += 1
        if v:
            res.cov["impl_monitor_failures"] += 1
            if len(res.violations) < 3:
                d = C.write_replay(res.pid, {"case.race": "\n".join(c) + "\n", "impl.obs": l + "\n", "verdict.txt": v + "\n"})
                res.violations.append(("C03 on the real ping source, uncontrolled threads: %s   [%s]" % (v, " | ".join(c[1:-1])),
                                       os.path.join(d, "case.race")))
    res.cov["race_rounds"] = (150 if tier == "quick" else 2000) * len(RACES)
    if res.violations:
        res.broken = []


RACES = [
    ("race_two_last_drops", ["drop", "drop"]),
    ("race_three_last_drops", ["drop", "drop", "drop"]),
    ("race_ping_and_drops", ["ping ; drop", "clone ; drop ; drop", "drop"]),
    ("race_one_keeps", ["ping ; drop", "ping"]),
]


def race_text(name, progs, rounds):
    return ["case " + name, "pingers %d" % len(progs)] + ["prog %d: %s" % (i + 1, p) for i, p in enumerate(progs)] + ["race %d" % rounds]


def spec_race(case, line):
    """end state of one uncontrolled round: the source leaves the loop exactly when every handle is gone; a ping that
    returned is followed by a callback"""
    f = dict(x.split("=") for x in line.split()[2:])
    cbs, gone, left = int(f["cbs"]), int(f["gone"]), int(f["left"])
    pings = sum(l.split(":", 1)[1].count("ping") for l in case if l.startswith("prog"))
    if left == 0 and not gone:
        return "every handle was dropped (the last ones concurrently) but the source never closed: it is still in the loop"
    if left > 0 and gone:
        return "the source left the loop although %d handle(s) are still alive" % left
    if pings > 0 and cbs == 0:
        return "%d ping(s) returned but the callback never ran" % pings
    if cbs > pings:
        return "%d callbacks for %d pings" % (cbs, pings)
    return None


def single_threaded(res, tier, seed, have_drv):
    """C03's single-threaded clause: histories of ping / clone / drop / disable / enable / update / remove / dispatch over
    ping sources only, on the real loop and on the loop model; the implementation traces are judged by Spec.Core's
    clauses that speak of ping sources: a ping that has returned is followed by a callback while the source is inserted
    and enabled (its C02 clause), no callback without a ping or for a disabled / removed source (C01, C06, C07)."""
    import glob
    import coreprop
    import coresuite
    import gen_core
    corpus = []
    for f in sorted(glob.glob(os.path.join(C.ROOT, "corpus", "core", "c03_*.ops"))):
        corpus.append([l.rstrip("\n") for l in open(f) if l.strip()])
    cases, _ = gen_core.generate(seed * 1000 + 77, 250 if tier == "quick" else 6000, "pingonly", prefix="c03st")
    cases = corpus + cases
    impl, model, inconclusive = coresuite.run_cases(cases, want_model=have_drv)
    idxs = [i for i in range(len(cases)) if i not in set(inconclusive)]
    verdicts = dict(zip(idxs, coreprop.monitor([impl[i] for i in idxs]))) if have_drv else {}
    bad, diff = [], []
    for i in idxs:
        msgs = [m for pid in ("C02", "C01", "C06", "C07") for m in coreprop.verdict_for(verdicts.get(i, ""), pid)]
        msgs = [m for m in msgs if not any(m.startswith(tg) for tg in coreprop.TAGGED_FINDINGS)]
        if msgs:
            bad.append((i, msgs))
        if model is not None and coreprop.project(impl[i], "C02") != coreprop.project(model[i], "C02"):
            diff.append(i)
    res.cov["single_threaded_histories"] = len(idxs)
    res.cov["evaluations"] = res.cov.get("evaluations", 0) + len(idxs)
    for i, msgs in bad[:2]:
        def pred(c):
            it, _, inc = coreprop.run_one(c, want_model=False)
            v = coreprop.monitor([it])[0]
            return (not inc) and any(coreprop.verdict_for(v, pid) for pid in ("C02", "C01", "C06", "C07"))
        small = coreprop.shrink(cases[i], pred)
        it, _, _ = coreprop.run_one(small, want_model=False)
        v = coreprop.monitor([it])[0]
        m2 = [m for pid in ("C02", "C01", "C06", "C07") for m in coreprop.verdict_for(v, pid)]
        if not m2:
            small, it, m2 = cases[i], impl[i], msgs
        res.cov["impl_monitor_failures"] += 1
        d = C.write_replay(res.pid, {"case.ops": "\n".join(small) + "\n", "impl.obs": "\n".join(it) + "\n",
                                     "verdict.txt": "Spec.Core on the implementation trace (ping sources only):\n" + "\n".join(m2) + "\n"})
        res.violations.append(("C03, single-threaded history: %s   [history: %s]" % (m2[0], " ; ".join(small[1:-1])[:500]),
                               os.path.join(d, "case.ops")))
    if diff and not bad and not res.broken:
        i = diff[0]
        fd = coresuite.first_diff(coreprop.project(impl[i], "C02"), coreprop.project(model[i], "C02"))
        d = C.write_replay(res.pid, {"case.ops": "\n".join(cases[i]) + "\n", "impl.obs": "\n".join(impl[i]) + "\n",
                                     "model.obs": "\n".join(model[i]) + "\n"}, tag="diff")
        res.broken.append("correspondence (single-threaded ping histories): the real loop and the loop model disagree in %d of %d histories, "
                          "first on `%s`: impl `%s` vs model `%s` (replay %s)" % (len(diff), len(idxs), " ; ".join(cases[i][1:-1])[:300],
                                                                                   fd[1], fd[2], os.path.join(d, "case.ops")))


def run_races(rounds):
    cases = [race_text(n, progs, rounds) for n, progs in RACES]
    text = "\n".join("\n".join(c) for c in cases) + "\n"
    rc, out, err = C.run_vh("pingsched", text, timeout=1200)
    if rc != 0:
        raise RuntimeError("vh pingsched (race) failed: " + err[-300:])
    res = []
    for c, t in zip(cases, split_cases(out.splitlines())):
        for l in t:
            if l.startswith("race "):
                res.append((c, l, spec_race(c, l)))
    return res


def run_races_case(case):
    rc, out, err = C.run_vh("pingsched", "\n".join(case) + "\n", timeout=1200)
    return [(case, l, spec_race(case, l)) for l in out.splitlines() if l.startswith("race ")]


def replay(path):
    if path.endswith(".race"):
        case = [l.rstrip("\n") for l in open(path) if l.strip()]
        bad = [(l, v) for c, l, v in run_races_case(case) if v]
        print(bad[:3])
        return 1 if bad else 0
    case = [l.rstrip("\n") for l in open(path) if l.strip()]
    impl, model, ver = run_all([case])
    print("--- implementation\n" + "\n".join(impl[0]) + "\n--- model\n" + "\n".join(model[0]) + "\n--- Spec_C03: " + ver[0])
    return 0 if ver[0] == "ok" and impl[0] == model[0] else 1
