"""C07 — single-threaded loop property: see tools/coreprop.py (shared check body), lean/Verif/Props/C07.lean
(theorems), lean/Verif/Spec/Core.lean (monitor clauses tagged C07)."""
import coreprop

PID = "C07"
LEAN_MODULES = ['Verif.Inv.Kernel', 'Verif.Inv.Ctl', 'Verif.Inv.Release', 'Verif.Props.C07']
PROFILES = ['all', 'timers', 'fd']
TRUSTED_BASE = [
    "modelled, not verified: Linux epoll as used by polling 3.x (registration table + FIFO ready list, level/edge/oneshot), eventfd counters, std mpsc as a FIFO queue (single-threaded view), BinaryHeap pop order among equal deadlines (histories use distinct deadlines), Rc/RefCell as reference counts and borrow flags — all in lean/Verif/Model/{Kernel,Wheel,Slots,Loop}.lean and exercised against the real kernel/crate by the correspondence",
    "Spec.Core (lean/Verif/Spec/Core.lean) is the formal reading of the English property; its clauses for this property are evaluated on the real loop's traces",
    "the theorems of this property are about the mechanism (components of the model); the whole-history clauses are decided by the monitor on implementation traces plus the model/implementation correspondence, i.e. sampled — stated as such in DESIGN.md",
]
ASSUMPTIONS = [
    "documented exclusions only: enable() only of a disabled, not running source; a changed deadline/interest is followed by update(); Idle::cancel not from inside the idle itself",
    "logical time in ticks of 4 ms real time; a dispatch that straddles a tick boundary is re-run and, after 3 attempts, dropped and counted",
]


def run(res, tier, seed, search=False, have_drv=True):
    coreprop.run_property(res, PID, PROFILES, tier, seed, search, have_drv)


def replay(path):
    return coreprop.replay(path, PID)
