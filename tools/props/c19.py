"""C19 — signals: the real Signals source in a single-threaded process (vh sig) against SigMask (drv sig),
exhaustively over short operation sequences and randomly over longer ones; C19's clauses on the
implementation's answers."""
import itertools
import os
import random

import common as C

LEAN_MODULES = ["Verif.Props.C19"]
TRUSTED_BASE = [
    "modelled, not verified: POSIX standard-signal semantics on Linux (a blocked raised signal becomes pending and coalesces, unblocking a pending signal runs the handler, signalfd reads dequeue pending signals of its mask in ascending order); the harness observes the real kernel: pthread_sigmask after every call, counting sigaction handlers, the source's events",
]
ASSUMPTIONS = ["single-threaded process; the caller's initial signal mask is empty; signals SIGUSR1, SIGUSR2, SIGWINCH"]

SIGS = [10, 12, 28, 29, 17]      # the harness installs counting handlers for these; the exhaustive alphabet uses the first three
SUBSETS = [[], [10], [12], [28], [10, 12], [10, 28], [12, 28], [10, 12, 28]]


def alphabet():
    ops = []
    for kind in ("add", "remove", "set"):
        for s in SUBSETS:
            if kind != "set" and not s:
                continue
            ops.append((kind + " " + " ".join(map(str, s))).strip())
    ops += ["raise %d" % s for s in SIGS[:3]] + ["raiset %d" % s for s in SIGS[:3]] + ["dispatch", "drop", "appblock"]
    return ops


def gen_cases(tier, seed, search):
    ops = alphabet()
    cases = []
    maxlen = 2 if tier == "quick" else 3
    idx = 0
    for first in ([10], [12, 28], [10, 12, 28]):
        for n in range(0, maxlen + 1):
            for seq in itertools.product(ops, repeat=n):
                cases.append(["case e%d" % idx, "new " + " ".join(map(str, first))] + list(seq) + ["dispatch", "end"])
                idx += 1
    # many instances pending at one dispatch: five signals, each raised for the process and for the thread
    many = [x for s in SIGS for x in ("raise %d" % s, "raiset %d" % s)]
    cases.append(["case many10", "new " + " ".join(map(str, SIGS))] + many + ["dispatch", "dispatch", "end"])
    cases.append(["case many9", "new " + " ".join(map(str, SIGS))] + many[:9] + ["dispatch", "dispatch", "end"])
    cases.append(["case many_add", "new 10 12"] + ["add 28 29 17"] + many + ["dispatch", "remove 29", "raise 29", "dispatch", "end"])
    rnd = random.Random(seed)
    for i in range((3000 if tier == "quick" else 100000) * (4 if search else 1)):
        n = rnd.randrange(3, 13)
        seq = []
        for _ in range(n):
            seq.append(rnd.choice(ops) if rnd.random() < 0.55 else rnd.choice(["raise %d" % rnd.choice(SIGS[:3]), "raiset %d" % rnd.choice(SIGS[:3]), "dispatch"]))
        cases.append(["case r%d" % i, "new " + " ".join(map(str, rnd.choice(SUBSETS[1:])))] + seq + ["dispatch", "end"])
    return cases, maxlen


def split_cases(lines):
    out, cur = [], None
    for l in lines:
        if l.startswith("case "):
            if cur is not None:
                out.append(cur)
            cur = [l]
        elif cur is not None:
            cur.append(l)
    if cur is not None:
        out.append(cur)
    return out


def spec_c19(case, trace):
    """C19's clauses on the implementation's answers, from the operations alone (no model involved)."""
    alive, mask, pending, pending_t = False, set(), set(), set()     # process-wide and thread-directed pending queues
    app = set()          # blocked by the application itself, never given to the source
    handled = {s: 0 for s in SIGS}
    reported = []
    for l in trace:
        if not l.startswith("op "):
            continue
        op, res = l[3:].split(" -> ")
        w = op.split()
        got_blocked = [int(x) for x in res.split("blocked=[")[1].split("]")[0].split(",") if x]
        got_handled = [int(x) for x in res.split("handled=[")[1].split("]")[0].split(",") if x]
        got_reported = [int(x) for x in res.split("reported=[")[1].split("]")[0].split(",") if x]
        args = set(int(x) for x in w[1:] if x.isdigit())
        if w[0] == "new" and not alive:
            alive, mask = True, set(args)
        elif w[0] == "add" and alive:
            mask |= args
        elif w[0] == "remove" and alive:
            for q in (pending, pending_t):
                for s in args & mask & q:          # a pending instance of a signal that stops being configured goes to the handler
                    handled[s] += 1
                    q.discard(s)
            mask -= args
        elif w[0] == "set" and alive:
            for q in (pending, pending_t):
                for s in (mask - args) & q:
                    handled[s] += 1
                    q.discard(s)
            mask = set(args)
        elif w[0] == "drop" and alive:
            for q in (pending, pending_t):
                for s in mask & q:
                    handled[s] += 1
                    q.discard(s)
            alive, mask = False, set()
        elif w[0] in ("raise", "raiset"):
            s = int(w[1])
            if alive and s in mask:
                (pending if w[0] == "raise" else pending_t).add(s)      # coalesces within its queue
            else:
                handled[s] += 1                     # normal disposition: the process handler
        elif w[0] == "appblock":
            app = {23}
        elif w[0] == "dispatch" and alive:
            # every pending instance exactly once: the thread's queue first, then the process's, each ascending
            for s in sorted(pending_t & mask):
                reported.append(s)
            for s in sorted(pending & mask):
                reported.append(s)
            pending -= mask
            pending_t -= mask
        if sorted(got_blocked) != sorted((mask if alive else set()) | app):
            return "after `%s` the thread blocks %s; the configured set is %s and the application itself blocks %s" % (
                op, got_blocked, sorted(mask if alive else []), sorted(app))
        if got_handled != [handled[s] for s in SIGS]:
            return "after `%s` the process handlers ran %s times, expected %s (a configured signal's pending instance went to the handler, or an unconfigured one was swallowed)" % (op, got_handled, [handled[s] for s in SIGS])
        if got_reported != reported:
            return "after `%s` the source has reported %s, expected %s" % (op, got_reported, reported)
    return None


def run_all(cases, have_drv=True):
    text = "\n".join("\n".join(c) for c in cases) + "\n"
    rc, impl, err = C.run_vh("sig", text, timeout=3000)
    if rc != 0:
        raise RuntimeError("vh sig failed: " + err[-300:])
    model = None
    if have_drv:
        rc, model, err = C.run_drv("sig", text, timeout=3000)
        if rc != 0:
            raise RuntimeError("drv sig failed: " + err[-300:])
        model = split_cases(model.splitlines())
    return split_cases(impl.splitlines()), model


def run(res, tier, seed, search=False, have_drv=True):
    cases, maxlen = gen_cases(tier, seed, search)
    impl, model = run_all(cases, have_drv)
    res.cov["evaluations"] = len(cases)
    res.cov["exhaustive"] = True
    res.cov["exhaustive_scope"] = "every sequence of <= %d operations over add/remove/set (all subsets of 3 signals), raise, dispatch, drop after new({10},{12,28},{10,12,28})" % maxlen
    res.cov["rule"] = ("one evaluation = one operation sequence executed on the real Signals source in this single-threaded process and on SigMask; after "
                       "every operation the thread's blocked set (pthread_sigmask), the handler counters and the reported events are compared, and C19's "
                       "clauses are evaluated on the implementation's answers. distinct_nontrivial = distinct sequences in which a signal is raised while "
                       "configured and a mask operation happens before the next dispatch")
    nontrivial = set()
    for c in cases:
        armed = False
        for op in c[1:]:
            if op.startswith("raise"):
                armed = True
            elif op.split()[0] in ("add", "remove", "set") and armed:
                nontrivial.add(tuple(c[1:]))
            elif op == "dispatch":
                armed = False
    res.cov["distinct_nontrivial"] = len(nontrivial)
    res.cov["traces_validated_against_impl"] = len(cases) if model is not None else 0
    res.cov["samples"] = [{"ops": cases[j][1:-1], "impl": impl[j][-3:]} for j in (5, len(cases) // 2, len(cases) - 1)]
    for i, c in enumerate(cases):
        v = spec_c19(c, impl[i])
        if v:
            res.cov["impl_monitor_failures"] += 1
            if len(res.violations) < 3:
                d = C.write_replay(res.pid, {"case.ops": "\n".join(c) + "\n", "impl.obs": "\n".join(impl[i]) + "\n",
                                              "model.obs": ("\n".join(model[i]) + "\n") if model else "-\n", "verdict.txt": v + "\n"})
                res.violations.append(("C19 on the real Signals source: %s   [%s]" % (v, " ; ".join(c[1:-1])), os.path.join(d, "case.ops")))
        if model is not None and impl[i] != model[i]:
            res.cov["model_impl_disagreements"] += 1
            if res.cov["model_impl_disagreements"] == 1:
                first = next(((a, b) for a, b in zip(impl[i], model[i]) if a != b), ("<length>", "<length>"))
                d = C.write_replay(res.pid, {"case.ops": "\n".join(c) + "\n", "impl.obs": "\n".join(impl[i]) + "\n",
                                              "model.obs": "\n".join(model[i]) + "\n"}, tag="diff")
                res.broken.append("correspondence: real Signals and SigMask disagree on `%s`: impl `%s` vs model `%s` (replay %s)"
                                  % (" ; ".join(c[1:-1]), first[0], first[1], os.path.join(d, "case.ops")))
    if res.violations:
        res.broken = []


def replay(path):
    case = [l.rstrip("\n") for l in open(path) if l.strip()]
    impl, model = run_all([case])
    v = spec_c19(case, impl[0])
    print("--- implementation\n" + "\n".join(impl[0]) + "\n--- model\n" + "\n".join(model[0]) + "\n--- C19 clauses: %s" % v)
    return 0 if (v is None and impl[0] == model[0]) else 1
