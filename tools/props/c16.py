"""C16 — single-threaded loop property: see tools/coreprop.py (shared check body), lean/Verif/Props/C16.lean
(theorems), lean/Verif/Spec/Core.lean (monitor clauses tagged C16)."""
import coreprop

PID = "C16"
LEAN_MODULES = ['Verif.Inv.Kernel', 'Verif.Inv.GhostFree', 'Verif.Inv.RegOk', 'Verif.Props.C16']
PROFILES = ['fd', 'all', 'reentrant']
TRUSTED_BASE = [
    "modelled, not verified: Linux epoll as used by polling 3.x (registration table + FIFO ready list, level/edge/oneshot), eventfd counters, std mpsc as a FIFO queue (single-threaded view), BinaryHeap pop order among equal deadlines (histories use distinct deadlines), Rc/RefCell as reference counts and borrow flags — all in lean/Verif/Model/{Kernel,Wheel,Slots,Loop}.lean and exercised against the real kernel/crate by the correspondence",
    "Spec.Core (lean/Verif/Spec/Core.lean) is the formal reading of the English property; its clauses for this property are evaluated on the real loop's traces",
    "the theorems of this property are about the mechanism (components of the model); the whole-history clauses are decided by the monitor on implementation traces plus the model/implementation correspondence, i.e. sampled — stated as such in DESIGN.md",
]
ASSUMPTIONS = [
    "documented exclusions only: enable() only of a disabled, not running source; a changed deadline/interest is followed by update(); Idle::cancel not from inside the idle itself",
    "logical time in ticks of 4 ms real time; a dispatch that straddles a tick boundary is re-run and, after 3 attempts, dropped and counted",
]


def spec_c16_adapter(case, trace):
    """C16 on a real Async adapter (harness `vh asyncio`): while the adapter lives and its task is parked the fd is
    registered with exactly the interest waited for; once the adapter is gone (dropped, into_inner, executor removed)
    the fd is not registered any more."""
    mode = case[1].split()[1]
    if mode in ("adaptfail", "adaptclosed"):
        return None
    total = int(case[3].split()[1])
    for l in trace[2:]:
        op, res = l[3:].split(" -> ")
        kv = dict(x.split("=") for x in res.split())
        done = kv["done"] == "1"
        if done and kv["armed"] != "none":
            return "the adapter is gone (%s) but its fd is still registered with the poller (interest `%s`)" % (case[4], kv["armed"])
        if op == "settle" and not done and kv["ok"] == "1" and kv["armed"] != ("r" if mode == "read" else "w"):
            if not (mode == "write" and int(kv["moved"]) == total):
                return "after `%s` the task is parked on the adapter but the poller holds its fd with interest `%s`" % (op, kv["armed"])
    return None


def adapter_cases(res, tier, seed, have_drv):
    import os
    import common as C
    from props import c17
    cases = list(c17.SPECIAL) + c17.gen_cases("quick", seed, False)[:(120 if tier == "quick" else 300)]
    impl, model = c17.run_all(cases, have_drv)
    isolated = []
    for c in c17.REMOVE_EXEC:
        try:
            i1, _ = c17.run_all([c], False)
            isolated.append((c, i1[0]))
        except RuntimeError:
            pass        # a process that dies on these is C08/C15/C17's business
    n = 0
    for c, tr in list(zip(cases, impl)) + isolated:
        n += 1
        v = spec_c16_adapter(c, tr)
        if v:
            res.cov["impl_monitor_failures"] += 1
            if len(res.violations) < 3:
                d = C.write_replay(res.pid, {"case.io": "\n".join(c) + "\n", "impl.obs": "\n".join(tr) + "\n", "verdict.txt": v + "\n"})
                res.violations.append(("C16 on a real adapter: %s   [%s]" % (v, " ; ".join(c[1:])), os.path.join(d, "case.io")))
    if model is not None:
        for c, a, b in zip(cases, impl, model):
            if c17.comparable(c) and a != b and not res.broken:
                res.broken.append("correspondence (adapter cases): real adapter and AsyncProto disagree on `%s`" % " ; ".join(c[1:]))
    res.cov["adapter_cases"] = n
    res.cov["evaluations"] = res.cov.get("evaluations", 0) + n


def spec_unwrap(q, a):
    """C16 "…or unwrapped": a Generic taken out of its composite source and unwrapped while registered has left the poller"""
    w = q.split()
    leaves, ops = w[1], (w[2].split(",") if len(w) > 2 else [])
    stages = a.split()[0].split(";")
    active = [True] * len(leaves)
    for n, op in enumerate(ops):
        if n + 1 >= len(stages):
            break
        if op == "retire":
            i = next((j for j in range(len(leaves)) if active[j]), None)
            if i is not None:
                active[i] = False
        if op == "unwrap":
            i = next((j for j in range(len(leaves)) if active[j] and leaves[j] in "ge"), None)
            if i is not None:
                active[i] = False
                if stages[n + 1].split(",")[i] != "-":
                    return ("composite %s: leaf %d (a Generic) was taken out and unwrapped, but its fd is still registered with the poller "
                            "(sub-id %s)" % (leaves, i, stages[n + 1].split(",")[i]))
    return None


def unwrap_cases(res, tier, seed, have_drv):
    import os
    import common as C
    from props import c20
    lines = [l for l in c20.gen_cases("quick", seed) if l.startswith("composite ") and "unwrap" in l]
    impl, model = c20.run_both(lines, have_drv)
    for i, (q, a) in enumerate(zip(lines, impl)):
        v = spec_unwrap(q, a)
        if v:
            res.cov["impl_monitor_failures"] += 1
            if len(res.violations) < 3:
                d = C.write_replay(res.pid, {"case.tok": q + "\n", "impl.obs": a + "\n", "verdict.txt": v + "\n"})
                res.violations.append(("C16 on a real composite source: %s   [%s]" % (v, q), os.path.join(d, "case.tok")))
        elif model is not None and model[i] != a and not res.broken:
            res.broken.append("correspondence (composite sources): `%s`: impl `%s` vs model `%s`" % (q, a, model[i]))
    res.cov["unwrap_cases"] = len(lines)
    res.cov["evaluations"] = res.cov.get("evaluations", 0) + len(lines)


def run(res, tier, seed, search=False, have_drv=True):
    coreprop.run_property(res, PID, PROFILES, tier, seed, search, have_drv)
    adapter_cases(res, tier, seed, have_drv)
    unwrap_cases(res, tier, seed, have_drv)
    if res.violations:
        res.broken = []


def replay(path):
    if path.endswith(".tok"):
        from props import c20
        q = open(path).read().strip()
        impl, _ = c20.run_both([q], False)
        v = spec_unwrap(q, impl[0])
        print(impl[0]); print("C16:", v)
        return 1 if v else 0
    case = [l.rstrip("\n") for l in open(path) if l.strip()]
    if len(case) > 1 and case[1].startswith("mode "):
        from props import c17
        impl, _ = c17.run_all([case], False)
        v = spec_c16_adapter(case, impl[0])
        print("\n".join(impl[0])); print("C16:", v)
        return 1 if v else 0
    return coreprop.replay(path, PID)
