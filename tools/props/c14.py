"""C14 — single-threaded loop property: see tools/coreprop.py (shared check body), lean/Verif/Props/C14.lean
(theorems), lean/Verif/Spec/Core.lean (monitor clauses tagged C14)."""
import coreprop

PID = "C14"
LEAN_MODULES = ['Verif.Inv.Kernel', 'Verif.Inv.Life', 'Verif.Inv.LifeInv', 'Verif.Inv.OwnInv', 'Verif.Props.C14']
PROFILES = ['lifecycle', 'failures']
TRUSTED_BASE = [
    "modelled, not verified: Linux epoll as used by polling 3.x (registration table + FIFO ready list, level/edge/oneshot), eventfd counters, std mpsc as a FIFO queue (single-threaded view), BinaryHeap pop order among equal deadlines (histories use distinct deadlines), Rc/RefCell as reference counts and borrow flags — all in lean/Verif/Model/{Kernel,Wheel,Slots,Loop}.lean and exercised against the real kernel/crate by the correspondence",
    "Spec.Core (lean/Verif/Spec/Core.lean) is the formal reading of the English property; its clauses for this property are evaluated on the real loop's traces",
    "the theorems of this property are about the mechanism (components of the model); the whole-history clauses are decided by the monitor on implementation traces plus the model/implementation correspondence, i.e. sampled — stated as such in DESIGN.md",
]
ASSUMPTIONS = [
    "documented exclusions only: enable() only of a disabled, not running source; a changed deadline/interest is followed by update(); Idle::cancel not from inside the idle itself",
    "logical time in ticks of 4 ms real time; a dispatch that straddles a tick boundary is re-run and, after 3 attempts, dropped and counted",
]


def synthetic_wait_cases(res):
    """"A synthetic event returned by before_sleep forces a non-blocking wait": real lifecycle sources in every order, the
    timeout actually handed to the poller recorded by the poll hook (harness `vh timing`, C12's judge)."""
    import os
    import common as C
    from props import c12
    cases = [c for c in c12.gen_cases() if any(l.startswith("source life") for l in c)]
    traces = c12.run_impl(cases)
    for c, tr in zip(cases, traces):
        hard, _ = c12.judge(c, tr)
        hard = [h for h in hard if "synthetic" in h]
        if hard:
            res.cov["impl_monitor_failures"] += 1
            if len(res.violations) < 3:
                d = C.write_replay(res.pid, {"case.timing": "\n".join(c) + "\n", "impl.obs": "\n".join(tr) + "\n", "verdict.txt": hard[0] + "\n"})
                res.violations.append(("C14 on the real loop: %s   [%s]" % (hard[0], " ; ".join(c[1:-1])), os.path.join(d, "case.timing")))
    res.cov["synthetic_wait_cases"] = len(cases)
    res.cov["evaluations"] = res.cov.get("evaluations", 0) + len(cases)


def run(res, tier, seed, search=False, have_drv=True):
    coreprop.run_property(res, PID, PROFILES, tier, seed, search, have_drv)
    synthetic_wait_cases(res)
    if res.violations:
        res.broken = []


def replay(path):
    if path.endswith(".timing"):
        from props import c12
        case = [l.rstrip("\n") for l in open(path) if l.strip()]
        tr = c12.run_impl([case])[0]
        hard = [h for h in c12.judge(case, tr)[0] if "synthetic" in h]
        print("\n".join(tr)); print("C14:", hard)
        return 1 if hard else 0
    return coreprop.replay(path, PID)
