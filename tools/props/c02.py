"""C02 — single-threaded loop property: see tools/coreprop.py (shared check body), lean/Verif/Props/C02.lean
(theorems), lean/Verif/Spec/Core.lean (monitor clauses tagged C02)."""
import os
import random

import common as C
import coreprop

PID = "C02"
LEAN_MODULES = ['Verif.Inv.Kernel', 'Verif.Inv.Wheel', 'Verif.Inv.ReadyQ', 'Verif.Inv.LogMono', 'Verif.Props.C02']
# the cross-thread causes rest on the wake invariants proved in Verif.Props.C03 / C04 / C10 (checked by those properties' runs)
PROFILES = ['all', 'fd', 'timers']
TRUSTED_BASE = [
    "modelled, not verified: Linux epoll as used by polling 3.x (registration table + FIFO ready list, level/edge/oneshot), eventfd counters, std mpsc as a FIFO queue (single-threaded view), BinaryHeap pop order among equal deadlines (histories use distinct deadlines), Rc/RefCell as reference counts and borrow flags — all in lean/Verif/Model/{Kernel,Wheel,Slots,Loop}.lean and exercised against the real kernel/crate by the correspondence",
    "Spec.Core (lean/Verif/Spec/Core.lean) is the formal reading of the English property; its clauses for this property are evaluated on the real loop's traces",
    "the theorems of this property are about the mechanism (components of the model); the whole-history clauses are decided by the monitor on implementation traces plus the model/implementation correspondence, i.e. sampled — stated as such in DESIGN.md",
]
ASSUMPTIONS = [
    "documented exclusions only: enable() only of a disabled, not running source; a changed deadline/interest is followed by update(); Idle::cancel not from inside the idle itself",
    "logical time in ticks of 4 ms real time; a dispatch that straddles a tick boundary is re-run and, after 3 attempts, dropped and counted",
]


def cross_thread(res, tier, seed, have_drv):
    """C02 for causes produced on other threads (a ping, a channel message or close, a woken task): the
    'pending cause => reported' clauses of the ping / channel / executor monitors on controlled schedules and
    uncontrolled races of the real crate.  The protocol theorems behind them (PingProto / ChanProto / ExecProto
    wake invariants) are tied to the code by the correspondences of C03 / C04 / C10."""
    from props import c03, c04, c10, c18
    import itertools
    rnd = random.Random(seed * 7 + 1)
    k = 1 if tier == "quick" else 20
    found = []
    # ping
    cases = [c03.random_case(rnd, i) for i in range(120 * k)]
    impl, _, ver = c03.run_all(cases, have_drv)
    for c, v in zip(cases, ver or []):
        if "did not report the source" in v:
            found.append(("ping", v, c))
    n_ping = len(cases)
    # channel: controlled schedules + races
    cases = list(c04.WITNESSES) + [c04.random_case(rnd, i, 0.4) for i in range(100 * k)]
    impl, _ = c04.run_all(cases, False)
    for c, t in zip(cases, impl):
        v = c04.spec_c04(c, t)
        if isinstance(v, str) and ("with no wake-up pending" in v or "Closed was never delivered" in v):
            found.append(("channel", v, c))
    n_chan = len(cases)
    races = c04.run_races(3 if tier == "quick" else 30)
    for c, l, v in races:
        if v and v[0] == "lost":
            found.append(("channel (uncontrolled threads)", v[1], c))
    # executor
    cases = list(c10.WITNESSES) + [c10.random_case(rnd, i) for i in range(60 * k)]
    impl, _ = c10.run_all(cases, False)
    for c, t in zip(cases, impl):
        v = c10.spec_c10(c, t)
        if v and "a wake was lost" in v:
            found.append(("executor", v, c))
    n_exec = len(cases)
    # wrapped sources (TransientSource): after the parent's unregister / register (disable / enable through the loop)
    # the kept child must be back in the poller, or its pending readiness can never be dispatched
    wcases = []
    for init in ("from 0", "default"):
        for n in range(0, 4):
            for seq in itertools.product(c18.ALPHABET, repeat=n):
                wcases.append(c18.render(init, seq))
    for _ in range(200 * k):
        init = rnd.choice(["from 0", "from 0", "default"])
        wcases.append(c18.render(init, c18.protocol_walk(rnd, rnd.randrange(4, 12), init)))
    _, _, wver = c18.run_all(wcases, have_drv)
    for c, v in zip(wcases, wver or []):
        if v.startswith("bad quiescentMismatch"):
            found.append(("wrapped source", "a TransientSource's kept child is not registered with the poller although its parent is "
                          "(Spec_C18: %s)" % v, c))
    res.cov["wrapped_source_sequences"] = len(wcases)
    res.cov["cross_thread"] = {"ping_schedules": n_ping, "channel_schedules": n_chan, "channel_race_runs": len(races),
                               "executor_schedules": n_exec, "violations": len(found)}
    res.cov["evaluations"] = res.cov.get("evaluations", 0) + n_ping + n_chan + len(races) + n_exec
    for kind, why, c in found[:2]:
        d = C.write_replay(res.pid, {"case.sched": "\n".join(c) + "\n", "verdict.txt": why + "\n", "kind.txt": kind + "\n"})
        if kind == "wrapped source":
            os.rename(os.path.join(d, "case.sched"), os.path.join(d, "case.ops"))
        res.violations.append(("C02 (%s): a pending cause was not / cannot be dispatched: %s   [%s]" % (kind, why, " | ".join(c[1:-1])[:500]),
                               os.path.join(d, "case.ops" if kind == "wrapped source" else "case.sched")))
    if found:
        res.cov["impl_monitor_failures"] += len(found)


def run(res, tier, seed, search=False, have_drv=True):
    coreprop.run_property(res, PID, PROFILES, tier, seed, search, have_drv)
    cross_thread(res, tier, seed, have_drv)
    # sub-sources of composite sources whose sub-ids move when an earlier sub-source leaves: readiness of a registered
    # leaf reaches that leaf (harness `vh tok`, query `composite`; the clause `poked` of C20's monitor)
    from props import c01
    before = len(res.violations)
    c01.composite_cases(res, tier, seed, have_drv)
    res.violations[before:] = [(m.replace("C01 on a real composite source", "C02 on a real composite source"), r) for m, r in res.violations[before:]]
    if res.violations:
        res.broken = []


def replay(path):
    if path.endswith(".tok"):
        from props import c01
        return c01.replay(path)
    case = [l.rstrip("\n") for l in open(path) if l.strip()]
    kf0 = os.path.join(os.path.dirname(path), "kind.txt")
    if any(l.startswith("sched ") or l.startswith("race ") for l in case) or os.path.exists(kf0):
        from props import c03, c04, c10
        kf = os.path.join(os.path.dirname(path), "kind.txt")
        kind = open(kf).read().strip() if os.path.exists(kf) else ""
        if kind == "wrapped source":
            from props import c18
            return c18.replay(path)
        mod = c03 if kind == "ping" else c10 if kind == "executor" else c04
        return mod.replay(path)
    return coreprop.replay(path, PID)
