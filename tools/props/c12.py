"""C12 — dispatch() waits as long as it should.  The computed wait (Poll::poll's timeout, recorded by the
record_poll hook) is compared exactly with the model / the regenerated expression; the earliest-deadline
input and the actual sleep are measured against the wall clock (a miss must reproduce 3 times to count)."""
import itertools
import os

import common as C

LEAN_MODULES = ["Verif.Props.C12"]
TRUSTED_BASE = [
    "the computed wait is proved (Lean) and tied to src/sys.rs by translation + bridge lemma; the value actually handed to the poller is observed through the record_poll hook",
    "NOT proved, measured: the kernel's sleep (epoll_wait/timerfd via polling) — elapsed >= effective - 1 ms and <= effective + 250 ms; Instant is assumed monotone",
]
ASSUMPTIONS = ["partial by nature: the theorem decides the computed timeout, the actual wait is the OS's and is measured"]

MS = 1_000_000


def gen_cases():
    cases = []
    i = 0
    for timeout, timers, sources in itertools.product(
            ["0", "15", "300", "none"],
            [[], ["40"], ["15"], ["8"], ["-5"], ["none"], ["8", "40"], ["-5", "40"], ["none", "40"]],
            [[], ["ping"], ["chan"], ["pingclosed"], ["chanclosed"], ["ping", "chan", "pingclosed", "chanclosed"]]):
        lines = ["case t%d" % i, "timeout " + timeout] + ["timer " + t for t in timers] + ["source " + s for s in sources]
        if timeout == "none":
            lines.append("waker 60")      # an unlimited wait ends with a wake-up (both dispatches get one)
        lines.append("end")
        cases.append(lines)
        i += 1
    # timers that re-arm themselves from their callback and are then cancelled / disabled from outside: the second
    # dispatch must not be limited by (or fire) the arming that was cancelled
    for timeout, timer, sources in itertools.product(
            ["15", "300", "none"],
            ["-5 rearm 40 cancel", "-5 rearm 40 disable", "-5 rearm 40", "8 rearm 30 cancel", "8 rearm 30 disable", "-5 rearm 0 cancel"],
            [[], ["ping"]]):
        lines = ["case t%d" % i, "timeout " + timeout, "timer " + timer] + ["source " + s for s in sources]
        if timeout == "none":
            lines.append("waker 60")
        lines.append("end")
        cases.append(lines)
        i += 1
    # a timer that is not the earliest is given a deadline before the earliest one (set_deadline + update) before it
    # ever fired; after both timers have fired nothing is armed: the third dispatch must wait out its whole timeout
    for timeout, timers in itertools.product(["120", "none"],
                                             [["30", "60 moveto 10"], ["30", "200 moveto 5"], ["40", "20 moveto 70"], ["30", "60 moveto 10", "90"]]):
        lines = ["case t%d" % i, "timeout " + timeout, "dispatches %d" % (len(timers) + 1)] + ["timer " + t for t in timers]
        if timeout == "none":
            lines.append("waker 150")
        lines.append("end")
        cases.append(lines)
        i += 1
    # Async adapters that nobody awaits (peer alive or gone): idle sources, the wait is not cut short
    for timeout, timers, sources in itertools.product(["15", "120"], [[], ["40"]], [["adapteridle"], ["adapterclosed"], ["adapteridle", "adapterclosed", "ping"]]):
        cases.append(["case t%d" % i, "timeout " + timeout] + ["timer " + t for t in timers] + ["source " + s for s in sources] + ["end"])
        i += 1
    # a bounded channel exactly full when it is processed: afterwards it is an idle source like any other
    for timeout, cap in itertools.product(["15", "120"], ["1", "2", "5"]):
        cases.append(["case t%d" % i, "timeout " + timeout, "dispatches 3", "source chanfull " + cap, "end"])
        i += 1
    # sources with lifecycle hooks: a synthetic event returned by any before_sleep forces a non-blocking wait
    for timeout, sources in itertools.product(["120", "none"], [["lifesynth"], ["lifesynth", "lifequiet"], ["lifequiet", "lifesynth"],
                                                                  ["lifequiet", "lifesynth", "lifequiet"], ["lifequiet"]]):
        lines = ["case t%d" % i, "timeout " + timeout] + ["source " + s for s in sources]
        if timeout == "none":
            lines.append("waker 60")      # (never needed when a synthetic event is pending — unless the tree is broken)
        cases.append(lines + ["end"])
        i += 1
    # a wake-up that ends the wait before the earliest timer is due: the timer must not fire yet
    for timeout, timers in itertools.product(["600", "none"], [["400"], ["300", "500"]]):
        lines = ["case t%d" % i, "timeout " + timeout] + ["timer " + t for t in timers] + ["waker 50", "end"]
        cases.append(lines)
        i += 1
    # a timer registered while its deadline is unrepresentable (nothing armed) and given a real deadline later
    # (set_deadline + update): armed from then on — unless it was disabled in between, then nothing is armed
    for timeout, timers in itertools.product(["120", "none"],
                                             [["late 30"], ["late 30 disabled"], ["late 25", "60"], ["late 25 disabled", "60"]]):
        lines = ["case t%d" % i, "timeout " + timeout, "dispatches 2"] + ["timer " + t for t in timers]
        if timeout == "none":
            lines.append("waker 150")
        lines.append("end")
        cases.append(lines)
        i += 1
    # an armed timer that is given an unrepresentable deadline (set_duration(MAX) + update): its old arming is cancelled,
    # nothing is armed, the wait lasts the whole timeout (or until the wake-up)
    for timeout, timers in itertools.product(["120", "none"], [["40 park"], ["30 park", "80"], ["60", "25 park"]]):
        lines = ["case t%d" % i, "timeout " + timeout, "dispatches 2"] + ["timer " + t for t in timers]
        if timeout == "none":
            lines.append("waker 150")
        lines.append("end")
        cases.append(lines)
        i += 1
    # a lifecycle source whose before_sleep hook is slow: the wait is computed from the clock as it stands after the hooks
    for timeout, timers in itertools.product(["400", "1000"], [["300"], ["300", "350"]]):
        cases.append(["case t%d" % i, "timeout " + timeout, "dispatches 1"] + ["timer " + t for t in timers] + ["source lifeslow 100", "end"])
        i += 1
    return cases


def parse(line):
    f = dict(x.split("=") for x in line.split()[2:])
    return {k: (None if v == "none" else int(v)) for k, v in f.items()}


def judge(case, trace):
    """-> (hard failures, wall-clock failures)"""
    hard, soft = [], []
    waker = next((int(l.split()[1]) for l in case if l.startswith("waker")), None)
    has_closed = any("closed" in l or "chanfull" in l for l in case)
    hook_ms = sum(int(l.split()[2]) for l in case if l.startswith("source lifeslow"))
    for l in trace:
        if not l.startswith("disp "):
            continue
        idx = int(l.split()[1])
        d = parse(l)
        user, nxt, eff, el, due = d["user"], d["next"], d["eff"], d["elapsed"], d["due"]
        if d.get("synth") and user != 0:
            hard.append("dispatch %d: a before_sleep hook returned a synthetic event but the poll was given a timeout of %s ns instead of zero" % (idx, user))
        # the earliest armed deadline is what next_timeout is computed from (sampled a little after `due`)
        if due is None and nxt is not None:
            hard.append("dispatch %d: no timer is armed but the poll used a next deadline of %d ns" % (idx, nxt))
        if due is not None:
            if nxt is None:
                hard.append("dispatch %d: a timer is armed (due in %d ns) but the poll saw no deadline" % (idx, due))
            elif hook_ms:
                # the hooks ran between the harness's sample and the loop's: the loop's is the later one
                if not (due - (hook_ms + 200) * MS <= nxt <= due - (hook_ms - 2) * MS):
                    hard.append("dispatch %d: the before_sleep hooks took %d ms; time to the earliest armed deadline was %d ns before them, "
                                "the poll used %d ns (the clock was read before the hooks ran?)" % (idx, hook_ms, due, nxt))
            elif not (due - 20 * MS <= nxt <= due):
                hard.append("dispatch %d: time to the earliest armed deadline is %d ns, the poll used %d ns" % (idx, due, nxt))
        if idx == 0 and has_closed:
            continue        # it delivers the close events and returns: only its computed wait is checked (exactly, elsewhere)
        if eff is None:
            if waker is not None and not ((waker - 2) * MS <= el <= (waker + 250) * MS):
                soft.append("dispatch %d: unlimited wait ended after %d ns, the wake-up came at %d ms" % (idx, el, waker))
        elif waker is not None and waker * MS < eff:
            # the wake-up comes before the limit: it ends the wait
            if not ((waker - 2) * MS <= el <= (waker + 250) * MS):
                soft.append("dispatch %d: a wake-up at %d ms into a wait limited to %d ns ended it after %d ns" % (idx, waker, eff, el))
        else:
            if el < eff - 1 * MS:
                soft.append("dispatch %d: returned after %d ns although it should wait %d ns (spinning)" % (idx, el, eff))
            if el > eff + 250 * MS and idx >= 1:
                soft.append("dispatch %d: waited %d ns for a limit of %d ns (oversleeping)" % (idx, el, eff))
        # never early: a timer that fired in this dispatch was due by the time the dispatch returned
        if d["fired"] and due is not None and el < due - 1 * MS:
            hard.append("dispatch %d: a timer fired although the earliest armed deadline was still %d ns away when the dispatch began and it returned after %d ns" % (idx, due, el))
        # the second dispatch is quiescent (closed peers were consumed by the first): the limit, if it is a timer, fires
        if idx >= 1 and eff is not None and due is not None and user is not None and due <= user and d["fired"] == 0 and due > 0 \
                and not (waker is not None and waker * MS < eff):
            soft.append("dispatch %d: the earliest timer was the limit of the wait but did not fire" % idx)
    return hard, soft


def split_cases(lines):
    out, cur = [], None
    for l in lines:
        if l.startswith("case "):
            if cur is not None:
                out.append(cur)
            cur = [l]
        elif cur is not None:
            cur.append(l)
    if cur is not None:
        out.append(cur)
    return out


def run_impl(cases):
    text = "\n".join("\n".join(c) for c in cases) + "\n"
    rc, out, err = C.run_vh("timing", text, timeout=600)
    if rc != 0:
        raise RuntimeError("vh timing failed: " + err[-300:])
    return split_cases(out.splitlines())


def run(res, tier, seed, search=False, have_drv=True):
    cases = gen_cases()
    if tier == "thorough":
        cases = cases * 3
    import concurrent.futures as cf
    chunks = [cases[i::8] for i in range(8)]
    with cf.ThreadPoolExecutor(max_workers=8) as ex:
        parts = list(ex.map(run_impl, chunks))
    impl = {}
    for ch, part in zip(chunks, parts):
        for c, t in zip(ch, part):
            impl[id(c)] = t
    traces = [impl[id(c)] for c in cases]
    # exact check of the computed wait against the model and the regenerated expression
    queries, where = [], []
    for ci, t in enumerate(traces):
        for l in t:
            if l.startswith("disp "):
                d = l.split()
                u, n = d[2].split("=")[1], d[3].split("=")[1]
                queries.append("eff %s %s" % (u, n))
                where.append((ci, l))
    res.cov["evaluations"] = len(queries)
    res.cov["exhaustive"] = True
    res.cov["exhaustive_scope"] = "timeout {0, 15 ms, 300 ms, None} x timers {none, later, equal, earlier, expired, unrepresentable, mixes} x idle sources {none, ping, channel, closed ping, closed channel, all}, two dispatches each"
    res.cov["rule"] = ("one evaluation = one Poll::poll call of a real dispatch: (user timeout, time to next deadline, effective timeout) recorded by the hook; "
                       "effective is compared exactly with effTimeout and with the expression regenerated from src/sys.rs; next is checked against the "
                       "earliest armed deadline; the elapsed wall time against the effective timeout. distinct_nontrivial = distinct (user, has-deadline, "
                       "which-is-smaller, sources) combinations in which both a timeout or deadline and an idle source are present")
    if have_drv:
        rc, out, err = C.run_drv("timeout", "\n".join(queries) + "\n")
        answers = out.splitlines()
        for (ci, l), q, a in zip(where, queries, answers):
            eff = l.split()[4].split("=")[1]
            m, g = a.split()
            if eff != m or eff != g:
                res.cov["model_impl_disagreements"] += 1
                if len(res.violations) < 3:
                    d = C.write_replay(res.pid, {"case.timing": "\n".join(cases[ci]) + "\n", "impl.obs": "\n".join(traces[ci]) + "\n",
                                                  "verdict.txt": "Poll::poll used %s for (%s): model says %s, regenerated source expression says %s\n" % (eff, q, m, g)})
                    res.violations.append(("the poller was asked to wait %s ns for %s; min(timeout, time to next deadline) is %s" % (eff, q, m),
                                           os.path.join(d, "case.timing")))
    res.cov["traces_validated_against_impl"] = len(queries) if have_drv else 0
    nontrivial = set()
    soft_fail = []
    for ci, (c, t) in enumerate(zip(cases, traces)):
        if any(l.startswith("source") for l in c) and (c[1] != "timeout none" or any(l.startswith("timer") for l in c)):
            nontrivial.add(tuple(c[1:]))
        hard, soft = judge(c, t)
        for h in hard:
            res.cov["impl_monitor_failures"] += 1
            if len(res.violations) < 3:
                d = C.write_replay(res.pid, {"case.timing": "\n".join(c) + "\n", "impl.obs": "\n".join(t) + "\n", "verdict.txt": h + "\n"})
                res.violations.append((h + "   [%s]" % " ; ".join(c[1:-1]), os.path.join(d, "case.timing")))
        if soft:
            soft_fail.append((ci, soft))
    # a wall-clock miss must reproduce 3/3 to count
    confirmed = 0
    for ci, soft in soft_fail[:20]:
        again = [judge(cases[ci], run_impl([cases[ci]])[0])[1] for _ in range(2)]
        if all(again):
            confirmed += 1
            res.cov["impl_monitor_failures"] += 1
            if len(res.violations) < 3:
                d = C.write_replay(res.pid, {"case.timing": "\n".join(cases[ci]) + "\n", "impl.obs": "\n".join(traces[ci]) + "\n",
                                              "verdict.txt": "\n".join(soft) + "\n(reproduced 3 times)\n"})
                res.violations.append((soft[0] + "   [%s]" % " ; ".join(cases[ci][1:-1]), os.path.join(d, "case.timing")))
    res.cov["wall_clock_misses_first_run"] = len(soft_fail)
    res.cov["wall_clock_misses_confirmed"] = confirmed
    res.cov["distinct_nontrivial"] = len(nontrivial)
    res.cov["samples"] = [{"case": cases[j][1:-1], "trace": traces[j]} for j in (3, len(cases) // 2, len(cases) - 2)]


def replay(path):
    case = [l.rstrip("\n") for l in open(path) if l.strip()]
    t = run_impl([case])[0]
    hard, soft = judge(case, t)
    print("\n".join(t))
    print("hard:", hard, "wall-clock:", soft)
    return 1 if hard or soft else 0
