"""C15 — single-threaded loop property: see tools/coreprop.py (shared check body), lean/Verif/Props/C15.lean
(theorems), lean/Verif/Spec/Core.lean (monitor clauses tagged C15)."""
import coreprop

PID = "C15"
LEAN_MODULES = ['Verif.Inv.Slots', 'Verif.Inv.LifeInv', 'Verif.Inv.OwnInv', 'Verif.Inv.FailIns', 'Verif.Props.C15']
PROFILES = ['failures', 'lifecycle', 'all']
TRUSTED_BASE = [
    "modelled, not verified: Linux epoll as used by polling 3.x (registration table + FIFO ready list, level/edge/oneshot), eventfd counters, std mpsc as a FIFO queue (single-threaded view), BinaryHeap pop order among equal deadlines (histories use distinct deadlines), Rc/RefCell as reference counts and borrow flags — all in lean/Verif/Model/{Kernel,Wheel,Slots,Loop}.lean and exercised against the real kernel/crate by the correspondence",
    "Spec.Core (lean/Verif/Spec/Core.lean) is the formal reading of the English property; its clauses for this property are evaluated on the real loop's traces",
    "the theorems of this property are about the mechanism (components of the model); the whole-history clauses are decided by the monitor on implementation traces plus the model/implementation correspondence, i.e. sampled — stated as such in DESIGN.md",
]
ASSUMPTIONS = [
    "documented exclusions only: enable() only of a disabled, not running source; a changed deadline/interest is followed by update(); Idle::cancel not from inside the idle itself",
    "logical time in ticks of 4 ms real time; a dispatch that straddles a tick boundary is re-run and, after 3 attempts, dropped and counted",
]


def adapter_cases(res, have_drv):
    """C15: adapting an IO object the poller refuses fails and leaves slot table and fd mode as they were
    (real Async adapters on the calloop executor, harness `vh asyncio`, model `drv asyncio`)."""
    import os
    import common as C
    from props import c17
    n = 0
    for c in c17.SPECIAL:
        try:
            impl, model = c17.run_all([c], have_drv)
        except RuntimeError as ex:
            d = C.write_replay(res.pid, {"case.io": "\n".join(c) + "\n", "verdict.txt": "the harness process died on this case: %s\n" % str(ex)[:600]})
            res.violations.append(("%s: the process died while the loop dropped / refused an adapter   [%s]" % (PID, " ; ".join(c[1:])), os.path.join(d, "case.io")))
            res.cov["impl_monitor_failures"] += 1
            continue
        n += 1
        v = c17.spec_c17(c, impl[0])
        if v:
            d = C.write_replay(res.pid, {"case.io": "\n".join(c) + "\n", "impl.obs": "\n".join(impl[0]) + "\n", "verdict.txt": v + "\n"})
            res.violations.append(("%s on a real adapter: %s   [%s]" % (PID, v, " ; ".join(c[1:])), os.path.join(d, "case.io")))
            res.cov["impl_monitor_failures"] += 1
        elif model is not None and c17.comparable(c) and impl[0] != model[0]:
            res.broken.append("correspondence (adapter cases): real adapter and AsyncProto disagree on `%s`" % " ; ".join(c[1:]))
    res.cov["adapter_cases"] = n
    res.cov["evaluations"] = res.cov.get("evaluations", 0) + n


def run(res, tier, seed, search=False, have_drv=True):
    coreprop.run_property(res, PID, PROFILES, tier, seed, search, have_drv)
    adapter_cases(res, have_drv)
    if res.violations:
        res.broken = []


def replay(path):
    case = [l.rstrip("\n") for l in open(path) if l.strip()]
    if len(case) > 1 and case[1].startswith("mode "):
        from props import c17
        return c17.replay(path)
    return coreprop.replay(path, PID)
