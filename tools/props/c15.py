"""C15 — single-threaded loop property: see tools/coreprop.py (shared check body), lean/Verif/Props/C15.lean
(theorems), lean/Verif/Spec/Core.lean (monitor clauses tagged C15)."""
import coreprop

PID = "C15"
LEAN_MODULES = ['Verif.Inv.Slots', 'Verif.Inv.LifeInv', 'Verif.Inv.OwnInv', 'Verif.Inv.FailIns', 'Verif.Props.C15']
PROFILES = ['failures', 'lifecycle', 'all']
TRUSTED_BASE = [
    "modelled, not verified: Linux epoll as used by polling 3.x (registration table + FIFO ready list, level/edge/oneshot), eventfd counters, std mpsc as a FIFO queue (single-threaded view), BinaryHeap pop order among equal deadlines (histories use distinct deadlines), Rc/RefCell as reference counts and borrow flags — all in lean/Verif/Model/{Kernel,Wheel,Slots,Loop}.lean and exercised against the real kernel/crate by the correspondence",
    "Spec.Core (lean/Verif/Spec/Core.lean) is the formal reading of the English property; its clauses for this property are evaluated on the real loop's traces",
    "the theorems of this property are about the mechanism (components of the model); the whole-history clauses are decided by the monitor on implementation traces plus the model/implementation correspondence, i.e. sampled — stated as such in DESIGN.md",
]
ASSUMPTIONS = [
    "documented exclusions only: enable() only of a disabled, not running source; a changed deadline/interest is followed by update(); Idle::cancel not from inside the idle itself",
    "logical time in ticks of 4 ms real time; a dispatch that straddles a tick boundary is re-run and, after 3 attempts, dropped and counted",
]


def adapter_cases(res, have_drv):
    """C15: adapting an IO object the poller refuses fails and leaves slot table and fd mode as they were
    (real Async adapters on the calloop executor, harness `vh asyncio`, model `drv asyncio`)."""
    import os
    import common as C
    from props import c17
    n = 0
    for c in c17.SPECIAL:
        try:
            impl, model = c17.run_all([c], have_drv)
        except RuntimeError as ex:
            d = C.write_replay(res.pid, {"case.io": "\n".join(c) + "\n", "verdict.txt": "the harness process died on this case: %s\n" % str(ex)[:600]})
            res.violations.append(("%s: the process died while the loop dropped / refused an adapter   [%s]" % (PID, " ; ".join(c[1:])), os.path.join(d, "case.io")))
            res.cov["impl_monitor_failures"] += 1
            continue
        n += 1
        v = c17.spec_c17(c, impl[0])
        if v:
            d = C.write_replay(res.pid, {"case.io": "\n".join(c) + "\n", "impl.obs": "\n".join(impl[0]) + "\n", "verdict.txt": v + "\n"})
            res.violations.append(("%s on a real adapter: %s   [%s]" % (PID, v, " ; ".join(c[1:])), os.path.join(d, "case.io")))
            res.cov["impl_monitor_failures"] += 1
        elif model is not None and c17.comparable(c) and impl[0] != model[0]:
            res.broken.append("correspondence (adapter cases): real adapter and AsyncProto disagree on `%s`" % " ; ".join(c[1:]))
    res.cov["adapter_cases"] = n
    res.cov["evaluations"] = res.cov.get("evaluations", 0) + n


def dupreg_cases(res, have_drv):
    """C15: a Dispatcher that is registered is registered a second time (the poller refuses the duplicate fd): the call
    fails, takes no slot, and the source registered first keeps receiving its events (harness `vh tok`, `dupreg`)."""
    import os
    import common as C
    lines = ["dupreg ping", "dupreg gen"]
    rc, out, err = C.run_vh("tok", "\n".join(lines) + "\n", timeout=120)
    if rc != 0:
        res.broken.append("vh tok (dupreg) failed: " + err[-300:])
        return
    impl = out.splitlines()
    model = None
    if have_drv:
        rc, mo, err = C.run_drv("tok", "\n".join(lines) + "\n", timeout=120)
        model = mo.splitlines() if rc == 0 else None
    for i, (q, a) in enumerate(zip(lines, impl)):
        want = "%s second=err occupied=1->1 rounds=3/3" % q
        if a != want:
            v = "a refused second registration of a registered Dispatcher: expected `%s`, got `%s`" % (want, a)
            d = C.write_replay(res.pid, {"case.tokq": q + "\n", "impl.obs": a + "\n", "verdict.txt": v + "\n"})
            res.violations.append(("%s: %s" % (PID, v), os.path.join(d, "case.tokq")))
            res.cov["impl_monitor_failures"] += 1
        elif model is not None and model[i] != a:
            res.broken.append("correspondence (dupreg): impl `%s` vs model `%s`" % (a, model[i]))
    res.cov["dupreg_cases"] = len(lines)
    res.cov["evaluations"] = res.cov.get("evaluations", 0) + len(lines)


def run(res, tier, seed, search=False, have_drv=True):
    coreprop.run_property(res, PID, PROFILES, tier, seed, search, have_drv)
    adapter_cases(res, have_drv)
    dupreg_cases(res, have_drv)
    if res.violations:
        res.broken = []


def replay(path):
    case = [l.rstrip("\n") for l in open(path) if l.strip()]
    if path.endswith(".tokq"):
        import common as C
        rc, out, err = C.run_vh("tok", case[0] + "\n", timeout=120)
        print(out.strip())
        return 0 if out.strip() == "%s second=err occupied=1->1 rounds=3/3" % case[0] else 1
    if len(case) > 1 and case[1].startswith("mode "):
        from props import c17
        return c17.replay(path)
    return coreprop.replay(path, PID)
