"""C10 — executor: controlled thread schedules of the real Executor/Scheduler (vh execsched) against ExecProto
(drv execsched); a batch-limit run of the single-threaded kind; C10's clauses on implementation traces."""
import concurrent.futures as cf
import os
import random

import common as C

LEAN_MODULES = ["Verif.Inv.ExecProto", "Verif.Inv.ExecFifo", "Verif.Props.C10"]
TRUSTED_BASE = [
    "modelled, not verified: async_task by its contract (an idle task woken becomes scheduled and its runnable goes to the schedule function once; waking a scheduled or completed task does nothing; run() polls once; a completed task is never scheduled again; dropping a Runnable drops the future), std mpsc as a FIFO, AtomicBool swap/store as single steps, eventfd as an atomic counter",
    "futures used by the harness are manual (poll counts, stores its waker, completes iff its flag is set) and never wake themselves from inside poll; 'polled and dropped only on the loop thread' is observed by the futures themselves (thread id at poll/drop)",
    "StreamSource is covered by the ping protocol (C03) plus its own loop: not modelled separately",
]
ASSUMPTIONS = ["tasks are scheduled from the loop thread (Scheduler is !Send), wakers may be used from any thread"]


def case_text(name, ntasks, loop_ops, progs, sched):
    out = ["case " + name, "tasks %d" % ntasks, "threads %d" % len(progs), "loop: " + " ; ".join(loop_ops)]
    for i, p in enumerate(progs):
        out.append("thread %d: %s" % (i + 1, p))
    out.append("sched " + " ".join(map(str, sched)))
    out.append("end")
    return out


WITNESSES = [
    # wake lands between the executor's flag clear and its Empty: the flag protocol must re-wake the loop
    case_text("wake_mid_batch", 1, ["schedule 0", "dispatch", "dispatch", "dispatch"], ["complete 0 ; wake 0"],
              [0] * 10 + [1, 1, 1, 1, 1] + [0] * 16),
    # wake pushes, the loop clears the flag and drains, only then the waker swaps the flag
    case_text("swap_after_clear", 1, ["schedule 0", "dispatch", "dispatch", "dispatch", "dispatch"], ["wake 0 ; complete 0 ; wake 0"],
              [0] * 10 + [1, 1] + [0] * 6 + [1, 1, 1, 1, 1, 1, 1] + [0] * 16),
]


def random_case(rnd, idx):
    k = rnd.randrange(1, 4)
    loop_ops = []
    for t in range(k):
        loop_ops.append("schedule %d" % t)
        loop_ops += ["dispatch"] * rnd.randrange(0, 2)
    loop_ops += ["dispatch"] * rnd.randrange(3, 6)
    n = rnd.randrange(1, 3)
    progs = []
    for _ in range(n):
        ops = []
        for _ in range(rnd.randrange(1, 5)):
            t = rnd.randrange(k)
            ops.append(rnd.choice(["wake %d" % t, "wake %d" % t, "complete %d ; wake %d" % (t, t)]))
        progs.append(" ; ".join(ops))
    total = 5 * sum(len(p.split(";")) for p in progs) + 8 * len(loop_ops)
    # first let the loop schedule and poll the first task once (wakers exist only after a first poll) …
    sched = [0] * rnd.randrange(9, 14)
    # … then interleave freely, with a bias towards short waker bursts inside the executor's batch
    while len(sched) < total:
        t = rnd.randrange(0, n + 1)
        sched += [t] * (rnd.choice([1, 1, 2, 3]) if t == 0 else rnd.choice([1, 2, 2, 4, 5]))
    sched += list(range(1, n + 1)) * 12 + [0] * 30
    return case_text("r%d" % idx, k, loop_ops + ["dispatch", "dispatch"], progs, sched)


def split_cases(lines):
    out, cur = [], None
    for l in lines:
        if l.startswith("case "):
            if cur is not None:
                out.append(cur)
            cur = [l]
        elif cur is not None:
            cur.append(l)
    if cur is not None:
        out.append(cur)
    return out


def spec_c10(case, trace):
    scheduled = set()
    for l in case:
        if l.startswith("loop:"):
            for op in l.split(":", 1)[1].split(";"):
                w = op.split()
                if w and w[0] == "schedule":
                    scheduled.add(int(w[1]))
    must_deliver = set()
    woken = {}          # thread -> tasks it wakes
    for l in case:
        if l.startswith("thread "):
            tid = int(l.split()[1].rstrip(":"))
            ops = [x.split() for x in l.split(":", 1)[1].split(";") if x.split()]
            done = set()
            for o in ops:
                if o[0] == "complete":
                    done.add(int(o[1]))
                elif o[0] == "wake" and int(o[1]) in done:
                    must_deliver.add(int(o[1]))
                if o[0] == "wake":
                    woken.setdefault(tid, set()).add(int(o[1]))
    first_polls = {}    # thread -> polls per task when the thread made its first step
    steps = [l.split() for l in trace if l.startswith("step ")]
    last_deliv = []
    threads_done, nthreads = set(), sum(1 for l in case if l.startswith("thread "))
    idle_ends = 0
    prev_polls = None
    for w in steps:
        t, label = int(w[1]), w[2]
        kv = dict(x.split("=") for x in w[3:])
        deliv = [int(x) for x in kv["delivered"].strip("[]").split(",") if x]
        polls = [int(x) for x in kv["polls"].strip("[]").split(",") if x]
        if kv["loopthread"] != "1":
            return "a future was polled or dropped on a thread other than the loop thread"
        if len(set(deliv)) != len(deliv):
            return "a task's output was delivered twice: %s" % deliv
        if deliv[:len(last_deliv)] != last_deliv:
            return "the delivered sequence changed retroactively"
        for d in deliv:
            if polls[d] == 0:
                return "task %d's output was delivered although it was never polled" % d
        if t != 0 and prev_polls is not None and polls != prev_polls:
            return "a future was polled during a step of a waker thread"
        if t != 0 and t not in first_polls:
            first_polls[t] = prev_polls if prev_polls is not None else polls
        prev_polls, last_deliv = polls, deliv
        if t != 0 and label in ("done", "skip"):
            threads_done.add(t)
        if t == 0 and label == "loop.polled" and kv["counter"] == "0" and len(threads_done) == nthreads:
            idle_ends += 1
            if idle_ends >= 2:
                missing = [x for x in sorted(must_deliver & scheduled) if x not in deliv]
                if missing:
                    return ("task %s was completed and then woken, every waker thread has finished, the loop keeps dispatching and finds nothing "
                            "(eventfd counter 0) — its output was never delivered: a wake was lost" % missing)
                # a wake that returned is followed by a poll of the task (whether this wake or an earlier one scheduled it)
                for th, tasks in woken.items():
                    for x in sorted(tasks & scheduled):
                        if th in first_polls and x < len(polls) and x not in deliv and polls[x] <= first_polls[th][x]:
                            return ("thread %d woke task %d (polled %d times by then) and returned, every waker thread has finished, the loop keeps "
                                    "dispatching and finds nothing (eventfd counter 0) — the task was never polled again: a wake was lost"
                                    % (th, x, first_polls[th][x]))
    return None


def _chunk(args):
    cases, want_model = args
    text = "\n".join("\n".join(c) for c in cases) + "\n"
    rc, impl, err = C.run_vh("execsched", text, timeout=900)
    if rc != 0:
        return ("error", "vh execsched failed: " + err[-300:], None)
    model = None
    if want_model:
        rc, model, err = C.run_drv("execsched", text, timeout=900)
        if rc != 0:
            return ("error", "drv execsched failed: " + err[-300:], None)
        model = split_cases(model.splitlines())
    return ("ok", split_cases(impl.splitlines()), model)


def run_all(cases, have_drv=True, workers=16):
    n = len(cases)
    chunk = max(1, (n + workers * 3 - 1) // (workers * 3))
    jobs = [(cases[i:i + chunk], have_drv) for i in range(0, n, chunk)]
    impl, model = [], []
    with cf.ThreadPoolExecutor(max_workers=workers) as ex:
        for status, a, b in ex.map(_chunk, jobs):
            if status != "ok":
                raise RuntimeError(a)
            impl += a
            if have_drv:
                model += b
    return impl, (model if have_drv else None)


def extend_case(case, idx):
    """A schedule on which model and implementation part ways may have left the executor's wake protocol in a
    state the trace does not show (e.g. `notified` stuck at true).  Give it a tail that would expose that: one
    more thread completes and wakes every task once everything else is over, and the loop keeps dispatching."""
    out, n, k = [], 0, 0
    for l in case:
        w = l.split()
        if w[0] == "case":
            out.append("case %s_ext%d" % (w[1], idx))
        elif w[0] == "tasks":
            k = int(w[1]); out.append(l)
        elif w[0] == "threads":
            n = int(w[1]); out.append("threads %d" % (n + 1))
        elif w[0] == "loop:":
            out.append(l + " ; dispatch ; dispatch ; dispatch ; dispatch")
        elif w[0] == "sched":
            out.append("thread %d: %s" % (n + 1, " ; ".join("complete %d ; wake %d" % (t, t) for t in range(k))))
            out.append(l + " " + " ".join([str(n + 1)] * (6 * k + 4) + ["0"] * 48))
        else:
            out.append(l)
    return out


def window_cases(a_step=1):
    """Bounded-preemption enumeration around the executor's batch: two tasks polled once; thread 1 wakes task 0 after
    `a` loop steps, thread 2 wakes task 1 after `b` further loop steps (so that, over all b, its whole wake falls into
    every window of the dispatch that the first wake caused), and thread 3 completes and wakes both at the very end."""
    out = []
    for a in range(8, 30, a_step):
        for b in range(0, 12):
            sched = [0] * a + [1] * 6 + [0] * b + [2] * 6 + [0] * 14 + [3] * 14 + [0] * 40
            out.append(case_text("win_%d_%d" % (a, b), 2,
                                 ["schedule 0", "schedule 1"] + ["dispatch"] * 14,
                                 ["wake 0", "wake 1", "complete 0 ; wake 0 ; complete 1 ; wake 1"], sched))
    return out


def preempted_cases(a_step=3):
    """… and the same with the second waker *preempted* inside its wake: `p` of its steps, then `q` steps of the loop
    (which drains, clears and empties the queue meanwhile), then the rest of the wake."""
    out = []
    for a in range(8, 30, a_step):
        for p in range(1, 5):
            for q in range(1, 16, 2):
                sched = [0] * a + [1] * 6 + [2] * p + [0] * q + [2] * (6 - p) + [0] * 14 + [3] * 14 + [0] * 40
                out.append(case_text("split_%d_%d_%d" % (a, p, q), 2,
                                     ["schedule 0", "schedule 1"] + ["dispatch"] * 14,
                                     ["wake 0", "wake 1", "complete 0 ; wake 0 ; complete 1 ; wake 1"], sched))
    return out


def batch_limit_case():
    """1025 runnables in one go (single-threaded): the batch limit must not strand the last one."""
    n = 1025
    loop_ops = ["schedule %d" % i for i in range(n)] + ["dispatch", "dispatch", "dispatch"]
    return case_text("batch_1025", n, loop_ops, ["complete 0"], [1, 1] + [0] * (4 * n + 3 * 1100))


def run(res, tier, seed, search=False, have_drv=True):
    rnd = random.Random(seed)
    cases = list(WITNESSES) + [batch_limit_case()] + C.load_case_corpus("C10", "sched")
    for i in range((250 if tier == "quick" else 8000) * (4 if search else 1)):
        cases.append(random_case(rnd, i))
    cases += window_cases(3 if tier == "quick" and not search else 1)
    cases += preempted_cases(6 if tier == "quick" and not search else 2)
    impl, model = run_all(cases, have_drv)
    res.cov["evaluations"] = len(cases)
    res.cov["exhaustive"] = False
    res.cov["rule"] = ("one evaluation = one thread schedule (waker threads issuing wake/complete, the loop thread scheduling futures and dispatching) executed "
                       "on the real Executor with every thread parked at its yield points (enqueue, flag swap, eventfd write, flag clear, every dequeue), "
                       "replayed in ExecProto and compared step by step (label, eventfd counter, polls per task, delivered outputs); judged by C10's clauses. "
                       "distinct_nontrivial = distinct schedules in which a waker thread's step falls between the executor's eventfd drain and the end of its batch")
    nontrivial = set()
    for i, c in enumerate(cases):
        window = False
        for l in impl[i]:
            w = l.split()
            if len(w) > 2 and w[0] == "step":
                if w[1] == "0" and w[2] in ("exec.clear", "exec.dequeue"):
                    window = True
                elif w[1] == "0":
                    window = False
                elif window and w[2] not in ("skip", "done"):
                    nontrivial.add(tuple(c[1:]))
        v = spec_c10(c, impl[i])
        if v:
            res.cov["impl_monitor_failures"] += 1
            if len(res.violations) < 3:
                d = C.write_replay(res.pid, {"case.sched": "\n".join(c) + "\n", "impl.obs": "\n".join(impl[i][:400]) + "\n",
                                              "model.obs": ("\n".join(model[i][:400]) + "\n") if model else "-\n", "verdict.txt": v + "\n"})
                res.violations.append(("C10 on the real executor: %s   [%s]" % (v, " | ".join(c[1:-1])[:600]), os.path.join(d, "case.sched")))
        if model is not None and impl[i] != model[i]:
            res.cov["model_impl_disagreements"] += 1
            if res.cov["model_impl_disagreements"] == 1:
                first = next(((a, b) for a, b in zip(impl[i], model[i]) if a != b), ("<length>", "<length>"))
                d = C.write_replay(res.pid, {"case.sched": "\n".join(c) + "\n", "impl.obs": "\n".join(impl[i][:400]) + "\n",
                                              "model.obs": "\n".join(model[i][:400]) + "\n"}, tag="diff")
                res.broken.append("correspondence: real executor and ExecProto disagree on `%s`: impl `%s` vs model `%s` (replay %s)"
                                  % (" | ".join(c[1:-1])[:400], first[0][:200], first[1][:200], os.path.join(d, "case.sched")))
    # directed search: the correspondence broke but no clause was violated on the schedules as generated
    if model is not None and res.broken and not res.violations:
        differing = [c for i, c in enumerate(cases) if impl[i] != model[i] and len(c[1].split()) > 1 and int(c[1].split()[1]) <= 8][:60]
        ext = [extend_case(c, j) for j, c in enumerate(differing)] + (window_cases(1) + preempted_cases(1) if tier == "quick" and not search else [])
        if ext:
            eimpl, _ = run_all(ext, False)
            res.cov["directed_search_schedules"] = len(ext)
            for c, t in zip(ext, eimpl):
                v = spec_c10(c, t)
                if v:
                    d = C.write_replay(res.pid, {"case.sched": "\n".join(c) + "\n", "impl.obs": "\n".join(t[:400]) + "\n", "model.obs": "-\n",
                                                  "verdict.txt": v + "\n"})
                    res.violations.append(("C10 on the real executor: %s   [%s]" % (v, " | ".join(c[1:-1])[:600]), os.path.join(d, "case.sched")))
                    break
    stream_cases(res, tier, have_drv)
    res.cov["distinct_nontrivial"] = len(nontrivial)
    res.cov["traces_validated_against_impl"] = len(cases) if model is not None else 0
    res.cov["batch_limit_case"] = "1025 runnables queued before one dispatch: last delivered=" + (impl[2][-2][:60] if len(impl) > 2 else "?")
    res.cov["samples"] = [{"case": [x[:200] for x in cases[j]], "impl_trace": impl[j][:12]} for j in (0, len(cases) // 2, len(cases) - 1)]
    if res.violations:
        res.broken = []


def exec_cb_queries(lines, have_drv=True):
    text = "\n".join(lines) + "\n"
    rc, impl, err = C.run_vh("execcb", text, timeout=600)
    if rc != 0:
        raise RuntimeError("vh execcb failed: " + err[-300:])
    model = None
    if have_drv:
        rc, model, err = C.run_drv("execcb", text, timeout=600)
        if rc != 0:
            raise RuntimeError("drv execcb failed: " + err[-300:])
        model = model.splitlines()
    return impl.splitlines(), model


def spec_stream(q, a):
    """C10's StreamSource clause on the implementation's answer"""
    n = int(q.split()[1])
    kv = dict(x.split("=") for x in a.split()[2:])
    if int(kv["items"]) != n:
        return "a StreamSource over a stream of %d ready items delivered %s of them although the loop kept dispatching" % (n, kv["items"])
    if kv["inorder"] != "1":
        return "the items of the stream were delivered out of order or twice"
    if kv["nones"] != "1":
        return "the end of the stream was delivered %s times (expected once)" % kv["nones"]
    if kv["gone"] != "1":
        return "the stream ended but the StreamSource is still in the loop"
    return None


def spec_yield(q, a):
    if a.split("delivered=")[1] != "[0,1]":
        return ("a task that woke itself %s times inside its own poll, then a task scheduled after it: delivered %s, expected [0,1] "
                "(a wake or a schedule() was lost)" % (q.split()[1], a.split("delivered=")[1]))
    return None


def slab_queries(tier, seed):
    """histories of schedule / complete / wake / dispatch over up to 8 manual tasks on one executor: tasks complete out
    of scheduling order and new ones are scheduled while older ones are pending"""
    rnd = random.Random(seed * 7 + 3)
    out = ["slab s0 s1 d c0 d s2 c1 d c2 d d", "slab s0 s1 s2 d c1 d s3 s4 c0 d c3 c2 d c4 d d", "slab s0 c0 d w0 d s1 d c1 w1 d d",
           "slab s0 s1 s2 d c0 d x c1 w2 d", "slab s0 s1 x d"]
    for _ in range(150 if tier == "quick" else 4000):
        n = rnd.randrange(2, 9)
        nxt, sched, compl, ops = 0, [], set(), []
        for _ in range(rnd.randrange(4, 30)):
            r = rnd.random()
            if r < 0.3 and nxt < n:
                ops.append("s%d" % nxt); sched.append(nxt); nxt += 1
            elif r < 0.55 and sched:
                i = rnd.choice(sched)
                ops.append("c%d" % i); compl.add(i)
            elif r < 0.65 and sched:
                ops.append("w%d" % rnd.choice(sched))
            else:
                ops.append("d")
        if rnd.random() < 0.35:
            # the executor is removed and dropped while futures are pending (their wakers live on outside it)
            ops += ["x"] + [rnd.choice(["c%d" % rnd.choice(sched), "w%d" % rnd.choice(sched), "d"]) for _ in range(rnd.randrange(0, 4)) if sched]
            out.append("slab " + " ".join(ops + ["d"]))
            continue
        for i in sched:
            if i not in compl and rnd.random() < 0.7:
                ops.append("c%d" % i); compl.add(i)
        out.append("slab " + " ".join(ops + ["d", "d", "d"]))
    return out


def spec_slab(q, a):
    ops = q.split()[1:]
    if a.endswith("panicked=1"):
        return "the executor panicked on a history of schedule / complete / dispatch"
    got = [int(x) for x in a.split("delivered=[")[1].split("]")[0].split(",") if x]
    gone = {int(x) for x in a.split("dropped=[")[1].split("]")[0].split(",") if x}
    if len(got) != len(set(got)):
        return "an output was delivered twice: %s" % got
    if "x" in ops:
        before = ops[:ops.index("x")]
        held = {int(o[1:]) for o in before if o[0] == "s"}
        if not held <= gone:
            return ("the executor was removed and dropped, but the futures of tasks %s were not dropped (their wakers are also held "
                    "outside the executor)" % sorted(held - gone))
        if not set(got) <= {int(o[1:]) for o in before if o[0] == "c"} & held:
            return "delivered %s: an output of a task that had not completed before the executor went" % got
        return None
    if not set(got) <= gone:
        return "tasks %s were delivered but their futures were not dropped" % sorted(set(got) - gone)
    want = sorted({int(o[1:]) for o in ops if o[0] == "c"} & {int(o[1:]) for o in ops if o[0] == "s"})
    if sorted(got) != want:
        return "tasks %s completed and the loop kept dispatching, delivered %s (an output was lost, or delivered for a task that never completed)" % (want, got)
    return None


def stream_cases(res, tier, have_drv):
    sizes = [0, 1, 2, 7, 1023, 1024, 1025, 3000] + ([2048, 2049, 5000, 10000] if tier == "thorough" else [])
    lines = ["stream %d %d" % (n, 5) for n in sizes] + ["yield %d" % n for n in (0, 1, 2, 5)] + slab_queries(tier, res.seed)
    impl, model = exec_cb_queries(lines, have_drv)
    for i, (q, a) in enumerate(zip(lines, impl)):
        v = spec_stream(q, a) if q.startswith("stream") else spec_slab(q, a) if q.startswith("slab") else spec_yield(q, a)
        if v:
            res.cov["impl_monitor_failures"] += 1
            if len(res.violations) < 3:
                d = C.write_replay(res.pid, {"case.execcb": q + "\n", "impl.obs": a + "\n", "verdict.txt": v + "\n"})
                res.violations.append(("C10 on a real %s: %s   [%s]" % ("executor" if q.startswith(("slab", "yield")) else "StreamSource", v, q), os.path.join(d, "case.execcb")))
        elif model is not None and model[i] != a and not res.broken:
            res.broken.append("correspondence (executor / StreamSource queries): `%s`: impl `%s` vs model `%s`" % (q, a, model[i]))
    res.cov["stream_cases"] = len(lines)
    res.cov["evaluations"] = res.cov.get("evaluations", 0) + len(lines)


def replay(path):
    if path.endswith(".execcb"):
        q = open(path).read().strip()
        impl, _ = exec_cb_queries([q], False)
        v = spec_stream(q, impl[0]) if q.startswith("stream") else (spec_yield(q, impl[0]) if q.startswith("yield") else
                                                                        spec_slab(q, impl[0]) if q.startswith("slab") else None)
        print(impl[0]); print("verdict:", v)
        return 1 if v else 0
    case = [l.rstrip("\n") for l in open(path) if l.strip()]
    impl, model = run_all([case])
    v = spec_c10(case, impl[0])
    print("--- implementation\n" + "\n".join(impl[0][:200]) + "\n--- model\n" + "\n".join(model[0][:200]) + "\n--- C10 clauses: %s" % v)
    return 0 if (v is None and impl[0] == model[0]) else 1
