"""C17 — Async adapter: real socketpairs, reader / writer tasks on the calloop executor (vh asyncio) against
AsyncProto at quiescent points (drv asyncio); conservation, wake and blocking-mode clauses on the real runs."""
import os
import random

import common as C

LEAN_MODULES = ["Verif.Props.C17"]
TRUSTED_BASE = [
    "PARTIAL: the byte transport is the kernel's socket (a FIFO) — content and order are checked on the real runs with a position-dependent byte pattern, not proved",
    "modelled, not verified: one-shot epoll registration (MOD queues the entry if the fd is ready, a reported entry is disarmed), O_NONBLOCK as a property of the open file; the socket send-buffer size is not modelled: transfers larger than the buffer are judged by the clauses only, not compared with the model",
    "one task per adapter at a time (the &mut self API); a split adapter with two waiters is outside the stated quantifier",
]
ASSUMPTIONS = ["the peer makes progress (C17's premise)"]


def case_lines(name, mode, blocking, total, chunk, finish, ops, probe=0, vectored=0):
    return ["case " + name, "mode " + mode, "blocking %d" % blocking, "total %d chunk %d" % (total, chunk), "finish " + finish,
            "probe %d" % probe] + (["vectored 1"] if vectored else []) + ops + ["end"]


def gen_cases(tier, seed, search):
    rnd = random.Random(seed)
    cases = []
    n = (300 if tier == "quick" else 8000) * (4 if search else 1)
    for i in range(n):
        mode = rnd.choice(["read", "read", "write"])
        total = rnd.choice([1, 2, 7, 64, 1000, 5000, 70000]) if mode == "read" else rnd.choice([1, 10, 1000, 5000, 300000, 700000])
        chunk = rnd.choice([1, 2, 3, 17, 256, 4096, 65536, 200000])
        if total // chunk > 20000:
            chunk = max(chunk, total // 2000)
        ops = ["settle"] if rnd.random() < 0.7 else []
        if rnd.random() < 0.12:
            ops.append("adaptsame")
        remaining = total
        if mode == "read":
            while remaining > 0:
                k = min(remaining, rnd.choice([1, 1, 2, 5, 100, 4000, 100000]))
                ops.append("peer %d" % k)
                remaining -= k
                if rnd.random() < 0.75:
                    ops.append("settle")
            ops += ["settle", "settle"]
        else:
            for _ in range(rnd.randrange(1, 6)):
                ops.append("peer %d" % rnd.choice([1, 1000, 50000, 300000, 1000000]))
                if rnd.random() < 0.8:
                    ops.append("settle")
            ops += ["finishpeer"]
        cases.append(case_lines("a%d" % i, mode, rnd.randrange(2), total, chunk, rnd.choice(["drop", "intoinner"]), ops, probe=1 if rnd.random() < 0.35 else 0,
                                vectored=1 if mode == "write" and rnd.random() < 0.4 else 0))
    return cases


def split_cases(lines):
    out, cur = [], None
    for l in lines:
        if l.startswith("case "):
            if cur is not None:
                out.append(cur)
            cur = [l]
        elif cur is not None:
            cur.append(l)
    if cur is not None:
        out.append(cur)
    return out


SPECIAL = [
    # a refused adapt_io on the fd of a live adapter (EEXIST) leaves that adapter registered and working
    ["case adaptsame_parked_reader", "mode read", "blocking 1", "total 100 chunk 10", "finish drop", "probe 0",
     "settle", "adaptsame", "peer 50", "settle", "adaptsame", "peer 50", "settle", "settle", "end"],
    ["case adaptsame_parked_writer", "mode write", "blocking 0", "total 400000 chunk 100000", "finish drop", "probe 0",
     "settle", "adaptsame", "peer 300000", "settle", "finishpeer", "end"],
    # C15/C17: adapting an fd the poller refuses fails cleanly (slot freed, blocking mode restored)
    # refused before the poller is asked (closed fd: EBADF when the fd is made non-blocking): no slot may stay taken
    ["case adaptclosed", "mode adaptclosed", "end"],
    # a vectored write parked on a full socket buffer is woken by the peer draining it
    ["case vectored_parked_writer", "mode write", "blocking 0", "total 400000 chunk 100000", "finish drop", "probe 0", "vectored 1",
     "settle", "peer 300000", "settle", "finishpeer", "end"],
    ["case adaptfail_blocking", "mode adaptfail", "blocking 1", "end"],
    ["case adaptfail_nonblocking", "mode adaptfail", "blocking 0", "end"],
]
# the executor is removed while its task, which owns the adapter, is parked: dropping the future drops the adapter,
# whose Drop re-enters the loop (each of these runs in a process of its own: a panic in a destructor aborts)
REMOVE_EXEC = [
    ["case removeexec_parked_reader", "mode read", "blocking 1", "total 100 chunk 10", "finish drop", "probe 0",
     "settle", "peer 10", "settle", "removeexec", "settle", "end"],
    ["case removeexec_parked_writer", "mode write", "blocking 0", "total 5000 chunk 1000", "finish intoinner", "probe 1",
     "settle", "removeexec", "settle", "end"],
    ["case removeexec_before_first_poll", "mode read", "blocking 0", "total 10 chunk 10", "finish drop", "probe 0",
     "removeexec", "settle", "end"],
]


def spec_c17(case, trace):
    mode = case[1].split()[1]
    if mode == "adaptfail":
        want = "adaptfail err=1 bookkeeping=same nonblock=%d" % (0 if case[2].split()[1] == "1" else 1)
        if len(trace) < 2 or trace[1] != want:
            return "adapting an fd the poller refuses: expected `%s`, got `%s`" % (want, trace[1] if len(trace) > 1 else "<nothing>")
        return None
    if mode == "adaptclosed":
        want = "adaptclosed errs=3 occupied=0->0 slots_grew=0"
        if len(trace) < 2 or trace[1] != want:
            return "adapting a closed fd, three times: expected `%s`, got `%s`" % (want, trace[1] if len(trace) > 1 else "<nothing>")
        return None
    blocking = case[2].split()[1] == "1"
    total = int(case[3].split()[1])
    if trace[1] != "created nonblock=1":
        return "creating the adapter did not make the fd non-blocking"
    prev = None
    for l in trace[2:]:
        op, res = l[3:].split(" -> ")
        kv = dict(x.split("=") for x in res.split())
        moved, peer, done = int(kv["moved"]), int(kv["peer"]), kv["done"] == "1"
        if kv["ok"] != "1":
            return ("after `%s` the bytes that arrived are not the bytes that were written, in order — or an operation on the adapter "
                    "returned an I/O error" % op)
        if mode == "read":
            if moved > peer:
                return "after `%s` the task has read %d bytes, the peer wrote only %d" % (op, moved, peer)
            if op == "settle" and moved != min(peer, total):
                return ("after `%s` the reader has %d of the %d bytes the peer wrote although the loop is quiescent: it was not woken" % (op, moved, min(peer, total)))
        else:
            if peer > moved or moved > total:
                return "after `%s` the peer has read %d bytes, the task wrote %d of %d" % (op, peer, moved, total)
            if op == "settle" and prev is not None and not prev["done"] and prev["peer"] == prev["moved"] and prev["moved"] < total \
                    and moved == prev["moved"] and prev["op"].startswith("peer"):
                return "after the peer had read everything and the loop settled, the blocked writer made no progress: it was not woken"
        if op == "settle" and not done and kv["armed"] != ("r" if mode == "read" else "w"):
            if not (mode == "write" and moved == total):
                return "after `%s` the task is parked but the fd is registered with interest `%s`" % (op, kv["armed"])
        if done:
            if kv["armed"] != "none":
                return "the adapter is gone but its fd is still registered with the poller (%s)" % kv["armed"]
            if (kv["nonblock"] == "1") != (not blocking):
                return "the adapter is gone and the fd is %s, it was %s before" % (
                    "non-blocking" if kv["nonblock"] == "1" else "blocking", "blocking" if blocking else "non-blocking")
        elif kv["nonblock"] != "1":
            return "the fd is blocking while the adapter lives"
        prev = {"op": op, "moved": moved, "peer": peer, "done": done}
    last = dict(x.split("=") for x in trace[-1][3:].split(" -> ")[1].split())
    if last["done"] != "1":
        return "the peer made all the progress asked for and the loop settled, but the task never completed (moved=%s of %d)" % (last["moved"], total)
    return None


class Hang(RuntimeError):
    """the harness process did not come back, or died, on one case"""
    def __init__(self, case, died=None):
        if died is None:
            msg = ("the harness did not come back on `%s`: the loop thread is blocked (a blocking call on an fd the loop believes "
                   "non-blocking?)" % " ; ".join(case[1:]))
        else:
            msg = "the harness process died on `%s`: %s" % (" ; ".join(case[1:]), died)
        RuntimeError.__init__(self, msg)
        self.case = case


def run_all(cases, have_drv=True):
    import concurrent.futures as cf
    def one(chunk):
        text = "\n".join("\n".join(c) for c in chunk) + "\n"
        rc, impl, err = C.run_vh("asyncio", text, timeout=20 if len(chunk) == 1 else 240)
        if rc == 124 and len(chunk) > 1:
            # a run that does not come back: find the case
            for c in chunk:
                rc1, _, _ = C.run_vh("asyncio", "\n".join(c) + "\n", timeout=20)
                if rc1 == 124:
                    raise Hang(c)
        if rc == 124 and len(chunk) == 1:
            raise Hang(chunk[0])
        if rc != 0 and len(chunk) > 1:
            # a process that dies (a panic while a source is dropped inside the loop aborts): find the case
            for c in chunk:
                rc1, _, err1 = C.run_vh("asyncio", "\n".join(c) + "\n", timeout=20)
                if rc1 not in (0, 124):
                    tail = [l for l in err1.splitlines() if "panicked at" in l or "already" in l or "abort" in l]
                    raise Hang(c, died=(" | ".join(tail[-3:]) or err1[-200:]))
        if rc != 0:
            raise RuntimeError("vh asyncio failed: " + err[-300:])
        model = None
        if have_drv:
            rc, model, err = C.run_drv("asyncio", text, timeout=600)
            if rc != 0:
                raise RuntimeError("drv asyncio failed: " + err[-300:])
            model = split_cases(model.splitlines())
        return split_cases(impl.splitlines()), model
    chunks = [cases[i::8] for i in range(8)]
    with cf.ThreadPoolExecutor(max_workers=8) as ex:
        parts = list(ex.map(one, chunks))
    impl, model = {}, {}
    for ch, (a, b) in zip(chunks, parts):
        for j, c in enumerate(ch):
            impl[id(c)] = a[j]
            if b is not None:
                model[id(c)] = b[j]
    return [impl[id(c)] for c in cases], ([model[id(c)] for c in cases] if have_drv else None)


def comparable(case):
    """the model knows nothing of the socket buffer size: it is compared on reads and on writes that fit"""
    if case[1] in ("mode adaptfail", "mode adaptclosed"):
        return True
    total, chunk = int(case[3].split()[1]), int(case[3].split()[3])
    return case[1] == "mode read" or (total <= 65536 and total // max(chunk, 1) <= 100)


def run(res, tier, seed, search=False, have_drv=True):
    cases = SPECIAL + C.load_case_corpus("C17", "io") + gen_cases(tier, seed, search)
    try:
        impl, model = run_all(cases, have_drv)
    except Hang as ex:
        d = C.write_replay(res.pid, {"case.io": "\n".join(ex.case) + "\n", "verdict.txt": str(ex) + "\n"})
        res.violations.append(("C17 on the real adapter: %s" % ex, os.path.join(d, "case.io")))
        res.cov["impl_monitor_failures"] += 1
        res.cov["evaluations"] = len(cases)
        return
    # isolated runs: one process per case
    for c in REMOVE_EXEC:
        try:
            i1, m1 = run_all([c], have_drv)
        except RuntimeError as ex:
            d = C.write_replay(res.pid, {"case.io": "\n".join(c) + "\n", "verdict.txt": "the harness process died on this case: %s\n" % str(ex)[:600]})
            res.violations.append(("C17/C08: removing the executor while its task owns a parked adapter killed the process (a panic while "
                                   "the adapter was dropped inside the loop?)   [%s]" % " ; ".join(c[1:]), os.path.join(d, "case.io")))
            res.cov["impl_monitor_failures"] += 1
            continue
        cases.append(c)
        impl += i1
        if model is not None:
            model += m1
    res.cov["evaluations"] = len(cases)
    res.cov["exhaustive"] = False
    res.cov["rule"] = ("one evaluation = one transfer through a real Async adapter over a socketpair: a reader or writer task on the calloop executor "
                       "(chunk sizes 1..200000, totals up to 700000 bytes, fds blocking or non-blocking beforehand, finishing with drop or into_inner), "
                       "the peer's progress and the loop's settling interleaved at random; judged by C17's clauses, and compared with AsyncProto at "
                       "every quiescent point where the socket buffer is not the limit. distinct_nontrivial = distinct transfers in which the task "
                       "was parked at least once and woken again")
    nontrivial = set()
    compared = 0
    for i, c in enumerate(cases):
        parked = sum(1 for l in impl[i] if " armed=r " in l or " armed=w " in l)
        if parked >= 1 and impl[i][-1].find("done=1") >= 0:
            nontrivial.add(tuple(c[1:]))
        v = spec_c17(c, impl[i])
        if v:
            res.cov["impl_monitor_failures"] += 1
            if len(res.violations) < 3:
                d = C.write_replay(res.pid, {"case.io": "\n".join(c) + "\n", "impl.obs": "\n".join(impl[i]) + "\n",
                                              "model.obs": ("\n".join(model[i]) + "\n") if model else "-\n", "verdict.txt": v + "\n"})
                res.violations.append(("C17 on the real adapter: %s   [%s]" % (v, " ; ".join(c[1:6])), os.path.join(d, "case.io")))
        if model is not None and comparable(c):
            compared += 1
            if impl[i] != model[i]:
                res.cov["model_impl_disagreements"] += 1
                if res.cov["model_impl_disagreements"] == 1:
                    first = next(((a, b) for a, b in zip(impl[i], model[i]) if a != b), ("<length>", "<length>"))
                    d = C.write_replay(res.pid, {"case.io": "\n".join(c) + "\n", "impl.obs": "\n".join(impl[i]) + "\n",
                                                  "model.obs": "\n".join(model[i]) + "\n"}, tag="diff")
                    res.broken.append("correspondence: real adapter and AsyncProto disagree on `%s`: impl `%s` vs model `%s` (replay %s)"
                                      % (" ; ".join(c[1:6]), first[0], first[1], os.path.join(d, "case.io")))
    res.cov["distinct_nontrivial"] = len(nontrivial)
    res.cov["traces_validated_against_impl"] = compared
    res.cov["samples"] = [{"case": cases[j][:12], "impl_trace": impl[j][:8]} for j in (0, len(cases) // 2, len(cases) - 1)]
    if res.violations:
        res.broken = []


def replay(path):
    case = [l.rstrip("\n") for l in open(path) if l.strip()]
    try:
        impl, model = run_all([case])
    except Hang as ex:
        print(ex)
        return 1
    v = spec_c17(case, impl[0])
    print("--- implementation\n" + "\n".join(impl[0]) + "\n--- model\n" + "\n".join(model[0]) + "\n--- C17 clauses: %s" % v)
    return 0 if v is None and (not comparable(case) or impl[0] == model[0]) else 1
