"""C20 — poller keys: correspondence of the token arithmetic and the monitor of the property itself
on the implementation's answers."""
import os
import random

import common as C

LEAN_MODULES = ["Verif.Bridge.Token", "Verif.Props.C20"]
TRUSTED_BASE = [
    "modelled, not verified: nothing — the arithmetic of src/token.rs is regenerated from source on every run and bridged to the model by proof",
    "the TokenFactory of src/sys.rs and the version bump of src/list.rs are hand-modelled (Factory.token?, incVersion) and tied by the correspondence through the calloop::verif accessors",
]
ASSUMPTIONS = ["64-bit target (the target_pointer_width = \"64\" arm of src/token.rs)"]

MAXID, MAXV, MAXS = 2 ** 32 - 1, 2 ** 16 - 1, 2 ** 16 - 1


def boundary(maxv):
    vals = {0, 1, 2, maxv, maxv - 1}
    k = 1
    while (1 << k) <= maxv:
        for d in (-1, 0, 1):
            v = (1 << k) + d
            if 0 <= v <= maxv:
                vals.add(v)
        k += 1
    return sorted(vals)


def gen_cases(tier, seed, scale=1):
    rnd = random.Random(seed)
    lines = []
    bi, bv, bs = boundary(MAXID), boundary(MAXV), boundary(MAXS)
    # boundary cube (thinned for the 32-bit axis in quick tier)
    ids = bi if tier == "thorough" else [x for n, x in enumerate(bi) if n % 3 == 0 or x >= MAXID - 1 or x < 3]
    vs = bv if tier == "thorough" else [x for n, x in enumerate(bv) if n % 2 == 0 or x >= MAXV - 1 or x < 3]
    for i in ids:
        for v in vs:
            for s in vs:
                lines.append("pack %d %d %d" % (i, v, s))
    n = (200_000 if tier == "quick" else 5_000_000) * scale
    for _ in range(n):
        lines.append("pack %d %d %d" % (rnd.randrange(MAXID + 1), rnd.randrange(MAXV + 1), rnd.randrange(MAXS + 1)))
    for k in boundary(2 ** 64 - 1):
        lines.append("unpack %d" % k)
    for _ in range(n // 4):
        lines.append("unpack %d" % rnd.getrandbits(64))
    for v in bv:
        lines.append("incver %d %d %d" % (rnd.randrange(MAXID + 1), v, rnd.choice(bs)))
        lines.append("incsub %d %d %d" % (rnd.randrange(MAXID + 1), rnd.choice(bv), v))
        lines.append("forget %d %d %d" % (rnd.randrange(MAXID + 1), rnd.choice(bv), v))
    for _ in range(300 * scale):
        i0, v0 = rnd.randrange(0, 2 ** 16), rnd.choice(bv)
        lines.append("same %d %d %d %d %d %d" % (i0, v0, rnd.choice(bs), i0 + 65536 * rnd.randrange(1, 65535), v0, rnd.choice(bs)))
    for _ in range(2000 * scale):
        a = (rnd.choice(bi), rnd.choice(bv), rnd.choice(bs))
        b = rnd.choice([a, (a[0], a[1], rnd.choice(bs)), (rnd.choice(bi), rnd.choice(bv), rnd.choice(bs)),
                        (a[0], rnd.choice(bv), a[2])])
        lines.append("same %d %d %d %d %d %d" % (a + b))
    for i in [0, 1, MAXID - 1, MAXID, MAXID + 1, 2 ** 40, 2 ** 64 - 1] + [rnd.getrandbits(33) for _ in range(50)]:
        lines.append("new %d" % i)
    counts = [1, 2, 3, 255, 256, 257, 65534, 65535, 65536, 65537, 70000]
    counts += [rnd.randrange(1, 65537) for _ in range(6 if tier == "quick" else 200)]
    for c in counts:
        lines.append("factory %d %d %d %d" % (rnd.randrange(MAXID + 1), rnd.randrange(MAXV + 1), rnd.choice([0, 0, 5, MAXS]), c))
    # sub-tokens as the poller holds them: real composite sources (g = Generic leaf, r = a leaf that asks the factory
    # itself) in a real loop, through update / Reregister post action / disable / enable
    for _ in range(40 if tier == "quick" else 1500):
        leaves = "".join(rnd.choice("ggrte") for _ in range(rnd.randrange(1, 6)))
        ops, on = [], True
        live = len(leaves)
        for _ in range(rnd.randrange(1, 6)):
            op = rnd.choice(["update", "rereg", "disable", "retire", "retire", "unwrap"]) if on else "enable"
            if op == "unwrap" and (live <= 1 or ("g" not in leaves and "e" not in leaves)):
                op = "update"
            if op == "unwrap":
                live -= 1
            if op == "retire":
                if live <= 1:
                    op = "update"
                else:
                    live -= 1
            if op == "rereg" and not any(c not in "te" for c in leaves):
                op = "update"
            on = op != "disable"
            ops.append(op)
            if op == "retire":
                ops.append("update")
        lines.append("composite %s %s" % (leaves, ",".join(ops)))
    for leaves in ("gr", "rg", "grg", "ggr", "rr", "tg", "gt", "tgr", "gtg", "ttg", "ge", "eg", "gee", "reg"):
        lines.append("composite %s update,rereg,disable,enable,update" % leaves)
        lines.append("composite %s update,retire,update,disable,enable" % leaves)
        lines.append("composite %s unwrap,update,unwrap,update" % leaves)
    return lines


class Monitor:
    """The property itself, evaluated on the implementation's answers (C20's English clauses)."""

    def __init__(self):
        self.key_owner = {}

    def check(self, inp, out):
        w = inp.split()
        o = out.split()
        try:
            if w[0] == "pack":
                t = tuple(int(x) for x in w[1:4])
                k = int(o[0])
                dec = tuple(int(x) for x in o[1].split("."))
                if dec != t:
                    return "key %d of %s decodes back to %s" % (k, t, dec)
                if not (0 <= k < 2 ** 64):
                    return "key out of the machine word"
                if t[0] < 2 ** 32 - 1 and k == 2 ** 64 - 1:
                    return "key equals the poller's reserved notification key"
                prev = self.key_owner.setdefault(k, t)
                if prev != t:
                    return "key %d is shared by %s and %s" % (k, prev, t)
            elif w[0] == "unpack":
                if int(o[1]) != int(w[1]):
                    return "key %s decodes to %s which encodes back to %s" % (w[1], o[0], o[1])
            elif w[0] == "same":
                a, b = tuple(int(x) for x in w[1:4]), tuple(int(x) for x in w[4:7])
                want = a[0] == b[0] and a[1] == b[1]
                if (out.strip() == "true") != want:
                    return "same_source_as(%s, %s) = %s: tokens %s the same slot and generation" % (a, b, out, "of" if want else "not of")
            elif w[0] == "incver":
                t = tuple(int(x) for x in w[1:4])
                got = tuple(int(x) for x in out.split("."))
                if got[0] != t[0]:
                    return "increment_version%s = %s: the next generation of slot %d belongs to slot %d" % (t, out, t[0], got[0])
                if got[1] != (t[1] + 1) % (MAXV + 1):
                    return "increment_version%s = %s: generation %d is followed by %d" % (t, out, t[1], got[1])
            elif w[0] == "incsub":
                t = tuple(int(x) for x in w[1:4])
                if t[2] >= MAXS:
                    if out != "panic":
                        return "sub-id overflow did not fail loudly: %s" % out
                else:
                    if out != "%d.%d.%d" % (t[0], t[1], t[2] + 1):
                        return "increment_sub_id%s = %s" % (t, out)
            elif w[0] == "factory":
                i, v, s, cnt = (int(x) for x in w[1:5])
                kv = dict(x.split("=") for x in o)
                n = int(kv["n"])
                exp = min(cnt, MAXS)
                if n != exp:
                    return "factory delivered %d tokens for a request of %d (expected %d)" % (n, cnt, exp)
                if (kv["panic"] == "true") != (cnt > MAXS):
                    return "factory asked for %d tokens: panic=%s" % (cnt, kv["panic"])
                if kv["distinct"] != "true":
                    return "factory tokens are not pairwise distinct"
                if kv["same"] != "true":
                    return "factory tokens do not all belong to the source"
                if n and (kv["first"] != "%d.%d.0" % (i, v) or kv["last"] != "%d.%d.%d" % (i, v, n - 1)):
                    return "factory tokens %s..%s for source %d.%d" % (kv["first"], kv["last"], i, v)
            elif w[0] == "composite":
                stages = o[0].split(";")
                kv = dict(x.split("=") for x in o[1:])
                if kv.get("ok") != "true":
                    return "an operation on the composite source failed"
                if kv.get("own") != "true":
                    return "a leaf of the composite source sits in the poller under a key of another source"
                # every fd-backed leaf that is in the poller at the end answers an event on its fd
                last = stages[-1].split(",")
                want_poked = [str(i) for i, s in enumerate(last) if s not in ("-", "t") and w[1][i] != "e"]
                got_poked = [x for x in kv.get("poked", "-").split(",") if x != "-"]
                if got_poked != want_poked:
                    return ("composite %s after %s: the leaves %s are registered with the poller but an event on their fds reached the leaves %s"
                            % (w[1], w[2] if len(w) > 2 else "-", ",".join(want_poked) or "-", ",".join(got_poked) or "-"))
                timers = [str(i) for i, c in enumerate(w[1]) if c == "t"]
                fired = [x for x in kv.get("fired", "-").split(",") if x != "-"]
                if any(x not in timers for x in fired):
                    return ("when the timers of composite %s ran out, the leaves %s were called back: an fd-backed leaf shares a timer leaf's key"
                            % (w[1], ",".join(fired)))
                for n, st in enumerate(stages):
                    subs = st.split(",")
                    live = [s for s in subs if s not in ("-", "t")]
                    if len(set(live)) != len(live):
                        return ("after %s the leaves %s of one source sit in the poller under the sub-ids %s: not pairwise distinct"
                                % ("the insertion" if n == 0 else "`%s`" % w[2].split(",")[n - 1], w[1], st))
        except (ValueError, IndexError, KeyError):
            return "unparsable answer %r" % out
        return None


def run_both(lines, have_drv=True):
    text = "\n".join(lines) + "\n"
    rc, impl, err = C.run_vh("tok", text)
    if rc != 0:
        raise RuntimeError("vh tok failed: " + err[-500:])
    model = None
    if have_drv:
        rc, model, err = C.run_drv("tok", text)
        if rc != 0:
            raise RuntimeError("drv tok failed: " + err[-500:])
        model = model.splitlines()
    return impl.splitlines(), model


def run(res, tier, seed, search=False, have_drv=True):
    lines = gen_cases(tier, seed, scale=10 if search and tier == "quick" else 1)
    impl, model = run_both(lines, have_drv)
    mon = Monitor()
    res.cov["evaluations"] = len(lines)
    res.cov["rule"] = ("one evaluation = one call of the real token arithmetic (pack/unpack/inc/forget/same/new/factory) "
                       "compared with the model and judged by the C20 monitor; distinct = distinct input lines; "
                       "non-trivial = a non-zero field or key, or a factory request")
    distinct = set(l for l in lines if any(ch in l for ch in "123456789"))
    res.cov["distinct_nontrivial"] = len(distinct)
    res.cov["traces_validated_against_impl"] = len(lines) if model is not None else 0
    ops = {}
    for l in lines:
        ops[l.split()[0]] = ops.get(l.split()[0], 0) + 1
    res.cov["distribution"] = ops
    res.cov["samples"] = [{"input": lines[i], "impl": impl[i]} for i in (0, len(lines) // 3, len(lines) // 2, len(lines) - 1)]
    res.cov["exhaustive"] = False
    if len(impl) != len(lines) or (model is not None and len(model) != len(lines)):
        res.broken.append("correspondence: output line counts differ (impl %d, model %s, inputs %d)" % (
            len(impl), len(model) if model is not None else "-", len(lines)))
        return
    first_diff = None
    for i, l in enumerate(lines):
        bad = mon.check(l, impl[i])
        if bad:
            res.cov["impl_monitor_failures"] += 1
            if len(res.violations) < 3:
                d = C.write_replay(res.pid, {"case.ops": l + "\n", "impl.obs": impl[i] + "\n",
                                              "model.obs": (model[i] if model else "-") + "\n",
                                              "verdict.txt": "C20 monitor on the implementation: " + bad + "\n"})
                res.violations.append((bad + "   [input: %s]" % l, os.path.join(d, "case.ops")))
        if model is not None and impl[i] != model[i]:
            res.cov["model_impl_disagreements"] += 1
            if first_diff is None:
                first_diff = (l, impl[i], model[i])
    if first_diff and not res.violations:
        res.broken.append("correspondence: model and implementation disagree, first on `%s`\n  impl : %s\n  model: %s\n"
                          "(the C20 monitor accepts the implementation's answers on all %d inputs)" % (first_diff + (len(lines),)))


def replay(path):
    lines = [l.strip() for l in open(path) if l.strip() and not l.startswith("#")]
    impl, model = run_both(lines)
    mon = Monitor()
    rc = 0
    for i, l in enumerate(lines):
        bad = mon.check(l, impl[i])
        print("input : %s\nimpl  : %s\nmodel : %s\nverdict: %s" % (l, impl[i], model[i], bad or "ok"))
        if bad or impl[i] != model[i]:
            rc = 1
    return rc
