"""Type-directed generator of single-threaded loop histories (the op-file language of `vh core` /
`drv core`).  Mostly-valid histories (it tracks which sources exist, are inserted, enabled, which
handles are alive) plus a malformed stream (stale tokens, double enable, ops on removed sources).
Every random choice comes from one `random.Random(seed)`.

Documented exclusions are respected by construction: no `enable K` and no `setdeadline/setinterest K`
inside K's own callback program."""
import random

KINDS = ["ping", "timer", "chan", "sync", "gen", "custom", "customlife"]


class Case:
    def __init__(self, rnd, name, profile):
        self.r = rnd
        self.name = name
        self.p = profile
        self.lines = []
        self.kind = {}        # K -> kind
        self.inserted = set()
        self.enabled = set()
        self.removed = set()
        self.kept = set()
        self.ever_inserted = []
        self.fds = []
        self.next_k = 1
        self.next_fd = 1
        self.next_idle = 1
        self.idles = []
        self.now = 0
        self.stats = {}
        self.gen_fd = {}
        self.used_deadlines = set()
        self.scripted_idles = []

    def count(self, key):
        self.stats[key] = self.stats.get(key, 0) + 1

    def emit(self, line):
        for l in line.split("\n"):
            self.lines.append(l)
            self.count("op:" + l.split()[0])

    def fresh_deadline(self, lo, hi):
        """Deadlines are pairwise distinct within a case: the order in which a BinaryHeap pops equal
        keys is unspecified, and C05 only orders distinct deadlines."""
        d = self.now + self.r.randrange(lo, hi)
        while d in self.used_deadlines:
            d += self.r.choice([1, 1, 2, -1, 3])
        self.used_deadlines.add(d)
        return d

    # ---- source creation
    def new_source(self, kinds=None, top=True):
        r = self.r
        kind = r.choice(kinds or self.p["kinds"])
        k = self.next_k
        self.next_k += 1
        out = []
        if kind == "ping":
            out.append("new %d ping" % k)
        elif kind == "timer":
            d = "none" if r.random() < 0.1 else str(self.fresh_deadline(-2, 6))
            out.append("new %d timer %s" % (k, d))
        elif kind == "chan":
            out.append("new %d chan" % k)
        elif kind == "sync":
            out.append("new %d sync %d" % (k, r.choice([0, 1, 2, 5])))
        elif kind == "gen":
            released = [self.gen_fd[j] for j in sorted(self.kept) if j in self.removed and j in self.gen_fd]
            if released and r.random() < 0.5:
                f = r.choice(released)          # the fd of a removed source whose dispatcher is still held: re-use after release
            elif self.fds and r.random() < 0.25:
                f = r.choice(self.fds)          # duplicate fd: EEXIST on insertion if still registered
            else:
                f = self.next_fd
                self.next_fd += 1
                self.fds.append(f)
                out.append("fd %d" % f)
            self.gen_fd[k] = f
            out.append("new %d gen %d %s %s" % (k, f, r.choice(["r", "r", "r", "w", "rw", "-"]),
                                              r.choice(["level", "level", "edge", "oneshot"])))
        else:
            out.append("new %d custom %d %d" % (k, r.randrange(1, 4), 1 if kind == "customlife" else 0))
            if r.random() < self.p.get("fail_rate", 0.15):
                out.append(self.plan_line(k, failing=True))
        self.kind[k] = kind
        self.count("kind:" + kind)
        return k, out

    def plan_line(self, k, failing):
        r = self.r

        def pick():
            return str(r.randrange(0, 3)) if failing and r.random() < 0.4 else "-"
        bs = "none"
        if self.kind.get(k) == "customlife" or failing:
            bs = r.choice(["none", "none", "synth0", "synth1", "err"]) if r.random() < 0.6 else "none"
        # most real composite sources propagate a sub-registration error with `?` and roll nothing back
        rb = " rb=0" if failing and r.random() < 0.5 else ""
        return "plan %d reg=%s rereg=%s unreg=%s bs=%s%s" % (k, pick(), pick(), pick(), bs, rb)

    def insert_line(self, k):
        kind = self.kind[k]
        keep = kind in ("timer", "gen", "ping") and self.r.random() < 0.3
        if keep:
            self.kept.add(k)
        self.inserted.add(k)
        self.enabled.add(k)
        self.ever_inserted.append(k)
        return ("insertd %d" if keep else "insert %d") % k

    # ---- ops usable everywhere (top level and inside callbacks)
    def cause_op(self):
        r = self.r
        cands = []
        for k, kind in self.kind.items():
            if kind == "ping":
                cands += ["ping %d" % k] * 3 + ["cloneping %d" % k, "dropping %d" % k]
            elif kind in ("chan", "sync"):
                cands += ["send %d %d" % (k, r.randrange(1, 100))] * 3 + ["clonesender %d" % k, "dropsender %d" % k]
            elif kind == "gen":
                pass
            elif kind in ("custom", "customlife"):
                cands += ["write %d 1" % (1000 * k + r.randrange(0, 3))] * 2 + ["read %d" % (1000 * k + r.randrange(0, 3))]
        for f in self.fds:
            cands += ["write %d %d" % (f, r.randrange(1, 4))] * 2 + ["read %d" % f]
        if not cands:
            return None
        return r.choice(cands)

    def handle_op(self, in_cb_of=None):
        """A LoopHandle op on an existing (or stale) token."""
        r = self.r
        if not self.ever_inserted:
            return None
        malformed = r.random() < self.p.get("malformed", 0.12)
        k = r.choice(self.ever_inserted)
        ops = ["disable", "enable", "update", "remove", "update", "disable"]
        op = r.choice(ops)
        if not malformed:
            live = [x for x in self.ever_inserted if x in self.inserted]
            if not live:
                return None
            k = r.choice(live)
            if op == "enable":
                cands = [x for x in live if x not in self.enabled and x != in_cb_of]
                if not cands:
                    op = "update"
                else:
                    k = r.choice(cands)
            elif op == "disable":
                cands = [x for x in live if x in self.enabled]
                if cands:
                    k = r.choice(cands)
        if op == "enable" and k == in_cb_of:
            op = "update"           # documented exclusion: no enable of the running source
        # bookkeeping (best effort; the model is the authority)
        if op == "disable":
            self.enabled.discard(k)
        elif op == "enable":
            self.enabled.add(k)
        elif op == "remove":
            self.inserted.discard(k)
            self.enabled.discard(k)
            self.removed.add(k)
        return "%s %d" % (op, k)

    def misc_op(self, in_cb_of=None):
        r = self.r
        x = r.random()
        if x < 0.25:
            return self.idle_op(in_cb_of is None)
        if x < 0.35 and self.idles:
            return r.choice(["cancelidle %d", "dropidle %d"]) % r.choice(self.idles)
        if x < 0.5:
            timers = [k for k in self.kept if self.kind[k] == "timer" and k != in_cb_of]
            if timers:
                k = r.choice(timers)
                follow = " ; update %d" % k if in_cb_of is not None else "\nupdate %d" % k
                if r.random() < 0.15:       # a deadline that cannot be represented: the timer is parked
                    return "setdeadline %d none" % k + (follow if r.random() < 0.9 else "")
                return "setdeadline %d %d" % (k, self.fresh_deadline(-1, 5)) + (follow if r.random() < 0.9 else "")
        if x < 0.6:
            gens = [k for k in self.kept if self.kind[k] == "gen" and k != in_cb_of]
            if gens:
                k = r.choice(gens)
                follow = " ; update %d" % k if in_cb_of is not None else "\nupdate %d" % k
                return "setinterest %d %s %s" % (k, r.choice(["r", "w", "rw", "-"]),
                                                 r.choice(["level", "edge", "oneshot"])) + (follow if r.random() < 0.9 else "")
        if x < 0.68 and self.kept:
            gone = [j for j in sorted(self.kept) if j in self.removed]
            k = r.choice(gone) if gone and r.random() < 0.6 else r.choice(sorted(self.kept))
            return "dropdisp %d" % k
        if x < 0.8:
            customs = [k for k, kd in self.kind.items() if kd in ("custom", "customlife")]
            if customs:
                return self.plan_line(r.choice(customs), failing=r.random() < 0.5)
        return None

    def idle_op(self, top):
        """insert an idle: a scripted one (its program was declared at the start of the case) or a
        fresh plain one; at top level sometimes a burst (the queue's Vec grows past its first allocation)"""
        r = self.r
        def one():
            if self.scripted_idles and r.random() < self.p.get("scripted_idle", 0.5):
                return "idle %d" % r.choice(self.scripted_idles)
            i = self.next_idle
            self.next_idle += 1
            self.idles.append(i)
            return "idle %d" % i
        if r.random() < self.p.get("idle_burst", 0.15):
            n = r.randrange(4, 11) if top else r.randrange(2, 5)
            self.count("idle_burst")
            return ("\n" if top else " ; ").join(one() for _ in range(n))
        return one()

    def make_idle_script(self, i):
        """the program of a scripted idle; it inserts at most one scripted idle (itself or another), so
        the population of pending idles cannot grow geometrically from dispatch to dispatch"""
        r = self.r
        ops = []
        spawned = False
        for _ in range(r.choice([1, 1, 2, 3])):
            x = r.random()
            op = None
            if x < 0.45:
                if not spawned and r.random() < 0.7:
                    op = "idle %d" % r.choice(self.scripted_idles + [i])
                    spawned = True
                else:
                    j = self.next_idle
                    self.next_idle += 1
                    self.idles.append(j)
                    op = "idle %d" % j
            elif x < 0.6:
                op = "cancelidle %d" % r.choice([j for j in self.scripted_idles if j != i] or [i + 100])
            elif x < 0.8:
                op = self.cause_op()
            else:
                op = self.handle_op()
            if op:
                ops.append(op)
                self.count("idleop:" + op.split()[0])
        if not ops:
            ops = ["idle %d" % i]
        return "idlescript %d : %s" % (i, " ; ".join(ops))

    def ret_for(self, k):
        r = self.r
        kind = self.kind[k]
        if kind == "timer":
            return r.choice(["drop", "drop", "toinstant %d" % self.fresh_deadline(0, 6),
                             "toinstant %d" % self.fresh_deadline(1, 4), "toinstant %d" % self.fresh_deadline(-3, 1),
                             "overflow", "unit"])
        if kind in ("gen", "custom", "customlife"):
            return r.choice(["cont"] * 5 + ["rereg", "disable", "remove", "err"])
        return "unit"

    def make_script(self, k):
        r = self.r
        ops = []
        n = r.choice([0, 0, 1, 1, 2, 3, 4]) if r.random() < self.p.get("cb_ops", 0.6) else 0
        if k in self.inserted and r.random() < self.p.get("reuse_in_cb", 0.12):
            # the source removes itself and the same callback inserts another source, which takes over the slot
            ops.append("remove %d" % k)
            self.inserted.discard(k)
            self.enabled.discard(k)
            self.removed.add(k)
            nk, lines = self.new_source()
            ops += lines
            ops.append(self.insert_line(nk))
            self.count("cbop:reuse_slot")
        others = [j for j in self.inserted if j != k]
        if others and r.random() < self.p.get("meddle", 0.12):
            # interfere with a batch-mate: another source that may have an event in the batch being processed
            j = r.choice(others)
            seq = r.choice([["disable %d", "update %d"], ["disable %d", "enable %d"], ["disable %d"], ["remove %d"],
                            ["update %d", "disable %d"], ["disable %d", "update %d", "enable %d"], ["disable %d", "disable %d"]])
            for o in seq:
                ops.append(o % j)
            if seq[-1].startswith("disable") or (len(seq) > 1 and seq[0].startswith("disable") and not seq[-1].startswith("enable")):
                self.enabled.discard(j)
            if seq[0].startswith("remove"):
                self.inserted.discard(j); self.enabled.discard(j); self.removed.add(j)
            self.count("cbop:meddle")
        for _ in range(n):
            x = r.random()
            op = None
            if x < 0.4:
                op = self.handle_op(in_cb_of=k)
                # aim at the running source itself more often than chance would
                if op and r.random() < 0.35 and not op.startswith("enable"):
                    op = "%s %d" % (op.split()[0], k)
                    if op.startswith("remove"):
                        self.inserted.discard(k)
            elif x < 0.7:
                op = self.cause_op()
            elif x < 0.85:
                nk, lines = self.new_source()
                ops += lines
                op = self.insert_line(nk)
            else:
                op = self.misc_op(in_cb_of=k)
            if op:
                ops.append(op)
                self.count("cbop:" + op.split()[0])
        if self.kind[k] == "gen" and r.random() < 0.7:
            ops.append("read %d" % self.gen_fd[k])
        which = "*" if r.random() < 0.7 else str(r.randrange(1, 3))
        if which == "*" and self.kind[k] in ("chan", "sync"):
            # a channel whose every callback sends to itself again is drained 1024 messages at a time, for ever: keep
            # self-feeding to the programs that run for one invocation only
            ops = [o for o in ops if not o.startswith("send %d " % k)]
        return "script %d %s : %s" % (k, which, " ; ".join(ops + ["ret " + self.ret_for(k)]))

    def build(self):
        r = self.r
        nsrc = r.randrange(1, self.p.get("max_sources", 6) + 1)
        for _ in range(nsrc):
            k, lines = self.new_source()
            for l in lines:
                self.emit(l)
            if r.random() < 0.9:
                self.emit(self.insert_line(k))
        for k in list(self.kind):
            if r.random() < self.p.get("script_rate", 0.6):
                self.emit(self.make_script(k))
        if r.random() < self.p.get("idle_scripts", 0.3):
            n = r.randrange(1, 4)
            self.scripted_idles = list(range(self.next_idle, self.next_idle + n))
            self.next_idle += n
            self.idles += self.scripted_idles
            for i in self.scripted_idles:
                self.emit(self.make_idle_script(i))
        nops = r.randrange(self.p.get("min_ops", 4), self.p.get("max_ops", 28))
        since_dispatch = 0
        for _ in range(nops):
            x = r.random()
            op = None
            if self.p.get("misc_idle") and r.random() < 0.22:
                op = self.idle_op(True)
            elif since_dispatch > 3 and r.random() < 0.6 or x < 0.22:
                # several sources ready in the same batch, more often than chance would have it
                if r.random() < self.p.get("crowd", 0.35):
                    for _ in range(r.randrange(1, 4)):
                        c = self.cause_op()
                        if c:
                            self.emit(c)
                op = "dispatch"
                # now and then the turns are run by block_on (a future that wakes itself): each turn is a dispatch
                if r.random() < self.p.get("blockon", 0.08):
                    op = "blockon %d" % r.randrange(2, 5)
            elif x < 0.5:
                op = self.cause_op()
            elif x < 0.68:
                op = self.handle_op()
            elif x < 0.76:
                k, lines = self.new_source()
                for l in lines:
                    self.emit(l)
                if r.random() < 0.5:
                    self.emit(self.make_script(k))
                op = self.insert_line(k)
            elif x < 0.84 and any(kd == "timer" for kd in self.kind.values()):
                n = r.randrange(1, 4)
                self.now += n
                op = "advance %d" % n
            elif x < 0.9:
                ks = list(self.kind)
                op = self.make_script(r.choice(ks))
            else:
                op = self.misc_op()
            if op:
                self.emit(op)
                since_dispatch = 0 if op == "dispatch" or op.startswith("blockon") else since_dispatch + 1
        self.emit("dispatch")
        if r.random() < 0.5:
            self.emit("dispatch")
        return ["case " + self.name] + self.lines + ["end"]


PROFILES = {
    "all": {"kinds": KINDS},
    "notimer": {"kinds": [k for k in KINDS if k != "timer"]},
    "timers": {"kinds": ["timer", "timer", "timer", "ping", "gen"], "max_sources": 8},
    "lifecycle": {"kinds": ["customlife", "customlife", "custom", "ping", "gen"], "fail_rate": 0.3},
    "fd": {"kinds": ["gen", "gen", "ping", "chan", "custom"], "max_sources": 8},
    "failures": {"kinds": ["custom", "customlife", "gen", "gen", "ping", "timer"], "fail_rate": 0.6, "malformed": 0.3},
    "idles": {"kinds": ["ping", "chan", "timer"], "cb_ops": 0.8, "idle_scripts": 0.9, "idle_burst": 0.35, "misc_idle": 0.6, "blockon": 0.25},
    "reentrant": {"kinds": KINDS, "cb_ops": 1.0, "script_rate": 0.95},
    # C03's single-threaded histories: ping sources only, many handle operations outside the documented protocol
    "pingonly": {"kinds": ["ping"], "max_sources": 4, "malformed": 0.35},
}


def generate(seed, n, profile="all", prefix="g"):
    rnd = random.Random(seed)
    cases, stats = [], {}
    prof = PROFILES[profile]
    for i in range(n):
        c = Case(rnd, "%s%d_%d" % (prefix, seed, i), prof)
        cases.append(c.build())
        for k, v in c.stats.items():
            stats[k] = stats.get(k, 0) + v
    return cases, stats


if __name__ == "__main__":
    import sys
    cs, st = generate(int(sys.argv[1]) if len(sys.argv) > 1 else 1, int(sys.argv[2]) if len(sys.argv) > 2 else 3,
                      sys.argv[3] if len(sys.argv) > 3 else "all")
    for c in cs:
        print("\n".join(c))
