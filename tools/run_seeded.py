#!/usr/bin/env python3
"""tools/run_seeded.py [--tier quick|thorough] [--only NAME ...] [--props Cxx,...]

Applies each seeded change under /verif/seeded/<name>/patch.diff to /repo's working tree, runs the
checks of the properties the change is recorded to break (meta.json "breaks", plus "also_check"),
undoes the change straight afterwards, and writes seeded/RESULTS.md + seeded/results.json.

Nothing is ever committed to /repo.  The script refuses to start when /repo's tracked files are dirty."""
import json
import os
import re
import subprocess
import sys
import time

ROOT = os.path.dirname(os.path.dirname(os.path.abspath(__file__)))
REPO = os.environ.get("VERIF_REPO", "/repo")
SEEDED = os.path.join(ROOT, "seeded")


def sh(cmd, **kw):
    return subprocess.run(cmd, capture_output=True, text=True, **kw)


def repo_dirty():
    return sh(["git", "-C", REPO, "status", "--porcelain", "--untracked-files=no"]).stdout.strip()


def apply(patch):
    r = sh(["git", "-C", REPO, "apply", "--whitespace=nowarn", patch])
    return r.returncode == 0, r.stderr


def undo(patch):
    r = sh(["git", "-C", REPO, "apply", "-R", "--whitespace=nowarn", patch])
    if r.returncode != 0:
        sh(["git", "-C", REPO, "checkout", "--", "."])
    if repo_dirty():
        sh(["git", "-C", REPO, "checkout", "--", "."])


def classify(out, rc):
    vio = [l for l in out.splitlines() if l.startswith("VIOLATION ")]
    if rc == 0 and not vio:
        return "MISSED", ""
    if not vio:
        return "ERROR(rc=%d, no VIOLATION line)" % rc, ""
    with_input = [l for l in vio if not l.rstrip().endswith("no-failing-input-found")]
    if with_input:
        return "caught: failing input", with_input[0]
    return "caught: no-failing-input-found", vio[0]


def main(argv):
    tier = "quick"
    do_harvest = False
    only = []
    props = None
    i = 0
    while i < len(argv):
        if argv[i] == "--tier":
            tier = argv[i + 1]; i += 2
        elif argv[i] == "--only":
            i += 1
            while i < len(argv) and not argv[i].startswith("--"):
                only.append(argv[i]); i += 1
        elif argv[i] == "--props":
            props = argv[i + 1].split(","); i += 2
        elif argv[i] == "--harvest":
            do_harvest = True; i += 1
        else:
            i += 1
    if repo_dirty():
        print("refusing: /repo has modified tracked files:\n" + repo_dirty())
        return 2
    names = sorted(d for d in os.listdir(SEEDED) if os.path.isfile(os.path.join(SEEDED, d, "patch.diff")))
    if only:
        names = [n for n in names if n in only or any(n.startswith(o) for o in only)]
    resfile = os.path.join(SEEDED, "results.json")
    results = json.load(open(resfile)) if os.path.exists(resfile) else {}
    for n in names:
        d = os.path.join(SEEDED, n)
        meta = json.load(open(os.path.join(d, "meta.json")))
        pids = props or (meta.get("breaks", []) + meta.get("also_check", []))
        patch = os.path.join(d, "patch.diff")
        ok, err = apply(patch)
        if not ok:
            print("%s: patch does not apply: %s" % (n, err.strip()))
            results[n] = {"error": "patch does not apply: " + err.strip()}
            continue
        entry = results.get(n, {}) if not props else results.get(n, {})
        try:
            for pid in pids:
                t0 = time.time()
                r = sh([os.path.join(ROOT, "check"), pid, tier], cwd=ROOT)
                out = r.stdout + r.stderr
                verdict, line = classify(out, r.returncode)
                replay_txt = ""
                m = re.search(r"replay=(\S+)", line)
                if m and os.path.exists(m.group(1)):
                    try:
                        replay_txt = open(m.group(1)).read()[:1500]
                    except Exception:
                        pass
                entry[pid] = {"tier": tier, "verdict": verdict, "line": line, "seconds": round(time.time() - t0, 1),
                              "replay_head": replay_txt}
                print("%-40s %-4s %-8s %s  (%.0fs)" % (n, pid, tier, verdict, time.time() - t0), flush=True)
        finally:
            undo(patch)
        results[n] = entry
        json.dump(results, open(resfile, "w"), indent=1, sort_keys=True)
    write_md(results)
    if do_harvest:
        harvest(results)
    assert not repo_dirty(), "/repo left dirty"
    return 0


def harvest(results):
    """Keep the minimal failing input of every caught change as a permanent corpus case (it runs first in every check),
    so that a change once caught with an input stays caught whatever the random generators do later.  Only cases the
    unchanged tree's model understands are kept (core histories: `drv core` answers no `bad-op`)."""
    drv = os.path.join(ROOT, "lean", ".lake", "build", "bin", "drv")
    n = 0
    for name, e in sorted(results.items()):
        if "error" in e:
            continue
        for pid, v in e.items():
            m = re.search(r"replay=(\S+)", v.get("line", ""))
            if not m or "no-failing" in v.get("line", "") or not os.path.exists(m.group(1)):
                continue
            path, base = m.group(1), os.path.basename(m.group(1))
            short = re.sub(r"[^A-Za-z0-9]+", "_", name)[:40]
            txt = open(path).read().splitlines()
            if txt and txt[0].startswith("case "):
                txt[0] = "case seed_" + short
            body = "\n".join(txt) + "\n"
            if base == "case.ops":
                r = subprocess.run([drv, "core"], input=body, capture_output=True, text=True)
                if r.returncode != 0 or "bad-op" in r.stdout:
                    continue
                dst = os.path.join(ROOT, "corpus", "core", "seed_%s.ops" % short)
            elif base == "case.sched" and pid in ("C03", "C04", "C10", "C11") and not any(l.startswith("race") for l in txt):
                dst = os.path.join(ROOT, "corpus", pid, "seed_%s.sched" % short)
            elif base == "case.io":
                dst = os.path.join(ROOT, "corpus", "C17", "seed_%s.io" % short)
            else:
                continue
            if not os.path.exists(dst):
                os.makedirs(os.path.dirname(dst), exist_ok=True)
                open(dst, "w").write(body)
                n += 1
    print("harvested %d new corpus cases" % n)


def write_md(results):
    lines = ["# Seeded changes against the checks", "",
             "Written by `tools/run_seeded.py`; one row per (change, property check).  `caught: failing input` = the check",
             "exited 1 with a VIOLATION line whose replay is a concrete input / schedule / history; `caught:",
             "no-failing-input-found` = a proof obligation or the correspondence broke but the search found no failing input;",
             "`MISSED` = the check exited 0.", "",
             "| change | breaks (per its author) | check | tier | verdict | s |", "|---|---|---|---|---|---|"]
    for n in sorted(results):
        e = results[n]
        mp = os.path.join(SEEDED, n, "meta.json")
        breaks = ",".join(json.load(open(mp)).get("breaks", [])) if os.path.exists(mp) else "?"
        if "error" in e:
            lines.append("| %s | %s | – | – | %s | |" % (n, breaks, e["error"]))
            continue
        for pid in sorted(e):
            v = e[pid]
            lines.append("| %s | %s | %s | %s | %s | %s |" % (n, breaks, pid, v["tier"], v["verdict"], v["seconds"]))
    open(os.path.join(SEEDED, "RESULTS.md"), "w").write("\n".join(lines) + "\n")
    # the summary block of DESIGN.md §10
    dp = os.path.join(ROOT, "DESIGN.md")
    if os.path.exists(dp):
        d = open(dp).read()
        a, b = "<!-- SEEDED-TABLE-BEGIN -->", "<!-- SEEDED-TABLE-END -->"
        if a in d and b in d:
            rows = ["| change | check: verdict |", "|---|---|"]
            for n in sorted(results):
                e = results[n]
                if "error" in e:
                    rows.append("| %s | %s |" % (n, e["error"]))
                else:
                    rows.append("| %s | %s |" % (n, "; ".join("%s: %s" % (pid, e[pid]["verdict"].replace("caught: ", "")) for pid in sorted(e))))
            d = d[:d.index(a) + len(a)] + "\n" + "\n".join(rows) + "\n" + d[d.index(b):]
            open(dp, "w").write(d)


if __name__ == "__main__":
    sys.exit(main(sys.argv[1:]))
