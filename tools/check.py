#!/usr/bin/env python3
"""./check <Cxx> quick|thorough   — decide one property on /repo's current working tree.
   ./check --replay <path>        — re-run a recorded case on the implementation and the model.

Pipeline (DESIGN.md §8): regenerate the source-derived Lean definitions, build the property's
theorem modules, audit their axioms, build the Rust harness against /repo with the hooks on, run the
correspondence (model vs implementation) and the property monitors on implementation traces, write
evidence, print VIOLATION / KNOWN-FINDING lines, exit 0/1."""
import importlib
import os
import sys

sys.path.insert(0, os.path.dirname(os.path.abspath(__file__)))
import common as C  # noqa: E402


def load(pid):
    return importlib.import_module("props." + pid.lower())


def main(argv):
    if len(argv) >= 2 and argv[0] == "--replay":
        return replay(argv[1])
    if len(argv) < 1:
        print(__doc__)
        return 2
    pid = argv[0]
    tier = argv[1] if len(argv) > 1 else os.environ.get("VERIF_TIER", "quick")
    if tier not in ("quick", "thorough"):
        tier = "quick"
    seed = int(os.environ.get("VERIF_SEED", "1") or 1)
    prop = load(pid)
    res = C.Result(pid, tier, seed)
    res.cov["trusted_base"] = C.TRUSTED_BASE_COMMON + list(getattr(prop, "TRUSTED_BASE", []))
    res.assumptions = list(getattr(prop, "ASSUMPTIONS", []))

    # 1. source-derived definitions
    for f in C.extract():
        res.broken.append("translator: " + f)

    # 2. build: the driver first (the correspondence needs it), then the theorems
    ok_drv, err_drv = C.lean_build([], want_drv=True)
    if not ok_drv:
        res.broken.append("model driver does not build against the regenerated definitions:\n" + err_drv)
    mods = prop.LEAN_MODULES
    ok, err = C.lean_build(mods, want_drv=False)
    names = []
    for m in mods:
        names += C.theorem_names(C.module_file(m))
    res.cov["obligations"] = len(names)
    res.cov["checker_cmd"] = "cd lean && lake build %s && lake env lean Audit/%s.lean  (#print axioms on every theorem)" % (" ".join(mods), pid)
    if ok:
        names2, discharged, bad, axioms = C.audit(pid, mods)
        res.cov["obligations"] = len(names2)
        res.cov["discharged"] = len(discharged)
        res.cov["axioms_used"] = axioms
        res.cov["theorems"] = names2
        for b in bad:
            res.broken.append("audit: " + b)
        if tier == "thorough":
            okc, txt = C.leanchecker(mods)
            res.cov["leanchecker"] = "ok" if okc else "FAILED"
            res.cov["checker_cmd"] += " && lake env leanchecker " + " ".join(mods)
            if not okc:
                res.broken.append("leanchecker rejected the compiled modules:\n" + txt)
    else:
        res.cov["discharged"] = 0
        res.broken.append("proof obligations that no longer check: %s\n%s" % (", ".join(C.failing_theorems(err)) or "?", err))

    # 3. harness against the current working tree
    okc, txt = C.cargo_build()
    if not okc:
        print("HARNESS-BUILD-FAILED (not a verdict about the property)\n" + txt)
        res.broken.append("the harness does not build against /repo's working tree:\n" + txt)
        return res.finish()

    # 4. correspondence + monitors (+ search for a failing input if anything above broke)
    try:
        prop.run(res, tier, seed, search=bool(res.broken), have_drv=ok_drv)
    except Exception as ex:  # a harness / driver that hangs or dies on this tree: the property is not shown to hold
        import traceback
        res.broken.append("the correspondence could not be run to its end on this tree (%s: %s)\n%s"
                          % (type(ex).__name__, str(ex)[:400], traceback.format_exc()[-800:]))
    return res.finish()


def replay(path):
    # replays/<Cxx>/<hash>/...
    parts = os.path.abspath(path).split(os.sep)
    pid = None
    for p in parts:
        if len(p) == 3 and p[0] == "C" and p[1:].isdigit():
            pid = p
    if pid is None:
        print("cannot tell the property from the path")
        return 2
    C.extract()
    C.lean_build([], want_drv=True)
    okc, txt = C.cargo_build()
    if not okc:
        print(txt)
        return 2
    return load(pid).replay(path)


if __name__ == "__main__":
    sys.exit(main(sys.argv[1:]))
